"""Property -> engine table."""

import importlib

CHECKS = {
    # property: (engine module, evidence level)
    'C07': ('lexstream', 'exploration'),
    'C11': ('cartwrite', 'fault_enumeration'),
    'C12': ('pathjail', 'exploration'),
    'C13': ('buildstore', 'exploration'),
    'C14': ('pkggraph', 'exploration'),
    'C17': ('cartmem', 'exploration'),
    'C18': ('cartmem', 'exploration'),
    'C20': ('pathjail', 'exploration'),
}


def load_engine(name):
    return importlib.import_module('picosim.engines.' + name)


def engine_for(prop):
    return load_engine(CHECKS[prop][0])
