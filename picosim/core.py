"""picosim core: seeds, worker pool, violations, minimiser, replay, evidence.

Everything random is derived from one integer (VERIF_SEED).  A *scenario* is a
JSON document; `engine.execute(scenario)` uses no randomness, no clock and no
`hash()`; a replay file is a scenario plus the violation it produced.
"""

import collections
import concurrent.futures
import faulthandler
import hashlib
import json
import multiprocessing
import os
import random
import shutil
import subprocess
import sys
import tempfile
import time
import traceback

VERIF_DIR = os.path.dirname(os.path.dirname(os.path.abspath(__file__)))
REPO = os.environ.get('PICOSIM_REPO', '/repo')
EVIDENCE_DIR = os.environ.get('PICOSIM_EVIDENCE_DIR',
                              os.path.join(VERIF_DIR, 'evidence'))
REPLAY_DIR = os.environ.get('PICOSIM_REPLAY_DIR',
                            os.path.join(VERIF_DIR, 'replays'))
REGRESSION_DIR = os.path.join(VERIF_DIR, 'regressions')
KNOWN_FINDINGS = os.path.join(VERIF_DIR, 'known_findings.json')

EXIT_HELD = 0
EXIT_VIOLATION = 1
EXIT_HARNESS = 2


class HarnessError(Exception):
    """Something is wrong with the machinery, not with picotool."""


# ---------------------------------------------------------------------------
# seeds

def get_seed():
    try:
        return int(os.environ.get('VERIF_SEED', '0'))
    except ValueError:
        return 0


def derive_rng(seed, label, index):
    """One PRNG per (seed, label, run index); never hash(), never a clock."""
    h = hashlib.sha256(('%d:%s:%d' % (seed, label, index)).encode()).digest()
    return random.Random(int.from_bytes(h[:16], 'big'))


def sha(obj):
    if not isinstance(obj, (bytes, bytearray)):
        obj = json.dumps(obj, sort_keys=True, separators=(',', ':'),
                         default=_json_default).encode()
    return hashlib.sha256(bytes(obj)).hexdigest()


def _json_default(o):
    if isinstance(o, (bytes, bytearray)):
        return {'$hex': bytes(o).hex()}
    if isinstance(o, (set, frozenset)):
        return sorted(o)
    if isinstance(o, tuple):
        return list(o)
    raise TypeError(type(o))


def dumps(obj, **kw):
    return json.dumps(obj, sort_keys=True, default=_json_default, **kw)


# bytes in scenarios are carried as {'$hex': ...} or latin-1 strings ('$l1')
def enc_bytes(b):
    b = bytes(b)
    try:
        s = b.decode('ascii')
        if all(32 <= c < 127 or c in (10, 9) for c in b):
            return {'$txt': s}
    except UnicodeDecodeError:
        pass
    return {'$hex': b.hex()}


def dec_bytes(o):
    if isinstance(o, (bytes, bytearray)):
        return bytes(o)
    if isinstance(o, dict):
        if '$txt' in o:
            return o['$txt'].encode('ascii')
        if '$hex' in o:
            return bytes.fromhex(o['$hex'])
        if '$rnd' in o:
            # seeded filler: {'$rnd': [seed, length]} expands deterministically
            seed, n = o['$rnd']
            return rnd_bytes(seed, n)
        if '$zero' in o:
            return bytes(o['$zero'])
        if '$bigtext' in o:
            # poorly compressible ASCII program text of about n bytes
            out = []
            n = 0
            c = 0
            while n < o['$bigtext']:
                ln = 'v%d="%s"\n' % (c, hashlib.sha256(
                    str(c).encode()).hexdigest())
                out.append(ln)
                n += len(ln)
                c += 1
            return ''.join(out).encode()
    if isinstance(o, str):
        return o.encode('latin-1')
    raise HarnessError('not bytes: %r' % (o,))


def rnd_bytes(seed, n):
    out = bytearray()
    c = 0
    while len(out) < n:
        out += hashlib.sha256(('%d:%d' % (seed, c)).encode()).digest()
        c += 1
    return bytes(out[:n])


# ---------------------------------------------------------------------------
# results

def new_result():
    return {
        'violations': [],      # list of dicts: property, vclass, sig, detail
        'events': [],          # the event log (deterministic content only)
        'faults': {},          # kind -> times *fired*
        'ops': {},             # kind -> count
        'states': [],          # distinct state tuples (as strings)
        'probes': {},          # rare-condition probes -> hits
        'nontrivial': False,
        'informative': True,
    }


def bump(d, k, n=1):
    d[k] = d.get(k, 0) + n


def violation(result, prop, vclass, sig, detail, step=None):
    result['violations'].append({
        'property': prop, 'vclass': vclass, 'sig': sig,
        'detail': detail if len(detail) < 2000 else detail[:2000] + '...',
        'step': step})


def finish_result(result, keep_events=False):
    result['digest'] = sha(result['events'])
    result['n_events'] = len(result['events'])
    if not keep_events:
        result['events'] = result['events'][:0]
    result['states'] = sorted(set(result['states']))
    return result


# ---------------------------------------------------------------------------
# known findings

def load_known_findings():
    if not os.path.exists(KNOWN_FINDINGS):
        return {'known': [], 'fixed': []}
    with open(KNOWN_FINDINGS, encoding='utf-8') as fh:
        d = json.load(fh)
    d.setdefault('known', [])
    d.setdefault('fixed', [])
    return d


def match_known(v, known):
    """A finding suppresses exactly the violations carrying its signature."""
    for k in known.get('known', []):
        if k['property'] == v['property'] and k['sig'] == v['sig']:
            return k
    return None


# ---------------------------------------------------------------------------
# worker pool

_WORKER_ENGINE = None


def _worker_init(engine_name, repo):
    global _WORKER_ENGINE
    faulthandler.enable()
    from picosim import registry
    _WORKER_ENGINE = registry.load_engine(engine_name)


def _worker_run(item):
    index, scenario, keep = item
    faulthandler.dump_traceback_later(120, exit=True)
    try:
        res = _WORKER_ENGINE.execute(scenario)
        finish_result(res, keep_events=keep)
        return index, res, None
    except BaseException:
        return index, None, traceback.format_exc()
    finally:
        faulthandler.cancel_dump_traceback_later()


def n_workers():
    try:
        return max(1, int(os.environ.get('PICOSIM_WORKERS', '0'))) \
            if os.environ.get('PICOSIM_WORKERS') else min(16, os.cpu_count() or 1)
    except ValueError:
        return min(16, os.cpu_count() or 1)


class Pool:
    def __init__(self, engine_name, workers=None):
        self.engine_name = engine_name
        self.workers = workers or n_workers()
        ctx = multiprocessing.get_context('fork')
        self.ex = concurrent.futures.ProcessPoolExecutor(
            max_workers=self.workers, mp_context=ctx,
            initializer=_worker_init, initargs=(engine_name, REPO))

    def map(self, scenarios, keep_events=False, wall_cap=None, chunk=None):
        """Execute scenarios; returns list of results in input order.

        Raises HarnessError if a worker dies, hangs or the executor raises.
        """
        items = [(i, s, keep_events) for i, s in enumerate(scenarios)]
        out = [None] * len(items)
        if not items:
            return out
        chunk = chunk or max(1, min(64, len(items) // (self.workers * 8) or 1))
        t0 = time.time()
        try:
            it = self.ex.map(_worker_run, items, chunksize=chunk,
                             timeout=wall_cap)
            for index, res, err in it:
                if err is not None:
                    raise HarnessError('executor raised in run %d:\n%s\n'
                                       'scenario: %s' % (
                                           index, err,
                                           dumps(scenarios[index])[:3000]))
                out[index] = res
        except concurrent.futures.TimeoutError:
            raise HarnessError('wall cap %.0fs exceeded after %.0fs' % (
                wall_cap, time.time() - t0))
        except concurrent.futures.process.BrokenProcessPool as e:
            raise HarnessError('worker died: %r' % (e,))
        return out

    def close(self):
        self.ex.shutdown(wait=False, cancel_futures=True)


# ---------------------------------------------------------------------------
# minimiser (delta debugging over scenario candidates supplied by the engine)

def minimise(engine, scenario, target, budget=300, log=None):
    """Shrink `scenario` while a violation with target (property, vclass)
    persists.  `engine.shrink(scenario)` yields candidate scenarios, simplest
    first.  Returns (scenario, violation, executions)."""
    def run(s):
        try:
            r = isolated(engine.execute, s)
        except BaseException:
            return None
        for v in r['violations']:
            if v['property'] == target['property'] and \
                    v['vclass'] == target['vclass']:
                return v
        return None

    best = scenario
    best_v = run(best)
    used = 1
    if best_v is None:
        raise HarnessError('violation does not reproduce in the minimiser '
                           '(nondeterministic executor?): %s' % (target,))
    progress = True
    seen = {sha(best)}
    while progress and used < budget:
        progress = False
        for cand in engine.shrink(best):
            h = sha(cand)
            if h in seen:
                continue
            seen.add(h)
            if used >= budget:
                break
            used += 1
            v = run(cand)
            if v is not None:
                best, best_v = cand, v
                progress = True
                if log:
                    log('  shrink: accepted candidate (%d execs, size %d)' % (
                        used, len(dumps(best))))
                break
    return best, best_v, used


def ddmin_list(items):
    """Candidate sub-lists for delta debugging: halves, then single drops."""
    n = len(items)
    if n <= 1:
        if n == 1:
            yield []
        return
    seen = set()
    size = n // 2
    while size >= 1:
        for start in range(0, n, size):
            cand = items[:start] + items[start + size:]
            key = (start, size)
            if key not in seen and len(cand) < n:
                seen.add(key)
                yield cand
        size //= 2


# ---------------------------------------------------------------------------
# replay files

def write_replay(prop, scenario, v, extra=None):
    d = os.path.join(REPLAY_DIR, prop)
    os.makedirs(d, exist_ok=True)
    doc = {'property': prop, 'violation': v, 'scenario': scenario}
    if extra:
        doc.update(extra)
    name = sha(doc)[:16] + '.json'
    path = os.path.join(d, name)
    with open(path, 'w', encoding='utf-8') as fh:
        fh.write(dumps(doc, indent=1))
        fh.write('\n')
    return path


def read_replay(path):
    with open(path, encoding='utf-8') as fh:
        return json.load(fh)


def replay_in_fresh_process(prop, path, hashseed='0'):
    """Run `check <prop> --replay path` in a fresh interpreter; returns
    (exit code, stdout)."""
    env = dict(os.environ)
    env['PYTHONHASHSEED'] = hashseed
    env['PICOSIM_NO_CONFIRM'] = '1'
    env.pop('PICOSIM_CONFIG', None)      # the replay file names its own
    p = subprocess.run(
        [sys.executable, os.path.join(VERIF_DIR, 'picosim', 'main.py'), prop,
         '--replay', path],
        env=env, stdout=subprocess.PIPE, stderr=subprocess.STDOUT,
        timeout=600)
    return p.returncode, p.stdout.decode('utf-8', 'replace')


# ---------------------------------------------------------------------------
# evidence

def write_evidence(prop, tier, seed, level, coverage, wall_s, violations,
                   assumptions, extra=None):
    os.makedirs(EVIDENCE_DIR, exist_ok=True)
    doc = {
        'property_id': prop,
        'tier': tier,
        'seed': seed,
        'level': level,
        'coverage': coverage,
        'assumptions': assumptions,
        'wall_s': round(wall_s, 3),
        'violations': violations,
    }
    if extra:
        doc.update(extra)
    path = os.path.join(EVIDENCE_DIR, prop + '.json')
    tmp = path + '.tmp'
    with open(tmp, 'w', encoding='utf-8') as fh:
        fh.write(dumps(doc, indent=1))
        fh.write('\n')
    os.replace(tmp, path)
    return path


class Agg:
    """Aggregates per-run results into evidence counters."""

    def __init__(self):
        self.runs = 0
        self.faults = collections.Counter()
        self.ops = collections.Counter()
        self.probes = collections.Counter()
        self.states = set()
        self.nontrivial_states = set()
        self.nontrivial_runs = 0
        self.uninformative = 0
        self.n_events = 0
        self.digests = []
        self.violations = []     # (index, violation)

    def add(self, index, res):
        self.runs += 1
        self.faults.update(res['faults'])
        self.ops.update(res['ops'])
        self.probes.update(res['probes'])
        self.states.update(res['states'])
        if res['nontrivial']:
            self.nontrivial_runs += 1
            self.nontrivial_states.update(res['states'])
        if not res.get('informative', True):
            self.uninformative += 1
        self.n_events += res.get('n_events', 0)
        self.digests.append(res['digest'])
        for v in res['violations']:
            self.violations.append((index, v))

    def batch_digest(self):
        return sha(self.digests)


# ---------------------------------------------------------------------------
# scratch space

def scratch_base():
    base = '/dev/shm' if os.path.isdir('/dev/shm') and os.access(
        '/dev/shm', os.W_OK) else tempfile.gettempdir()
    return base


_WORLD_DIR = None
_IN_CHILD = [False]


def world_root():
    """Per-process world directory (created lazily, removed at exit).  A
    forked run (see `isolated`) uses its parent's directory: the parent waits
    for it, so the directory is never used by two runs at once."""
    global _WORLD_DIR
    if _WORLD_DIR is not None and _IN_CHILD[0]:
        return _WORLD_DIR[1]
    if _WORLD_DIR is None or _WORLD_DIR[0] != os.getpid():
        d = tempfile.mkdtemp(prefix='picosim-%d-' % os.getpid(),
                             dir=scratch_base())
        _WORLD_DIR = (os.getpid(), d)
        import atexit
        pid = os.getpid()

        def _cleanup(d=d, pid=pid):
            if os.getpid() == pid:
                shutil.rmtree(d, ignore_errors=True)
        atexit.register(_cleanup)
        # multiprocessing children exit through os._exit: register there too
        try:
            from multiprocessing import util as mpu
            mpu.Finalize(None, _cleanup, exitpriority=0)
        except Exception:
            pass
    return _WORLD_DIR[1]


def sweep_stale_worlds():
    base = scratch_base()
    for n in os.listdir(base):
        if n.startswith('picosim-'):
            try:
                pid = int(n.split('-')[1])
            except (ValueError, IndexError):
                continue
            if not os.path.exists('/proc/%d' % pid):
                shutil.rmtree(os.path.join(base, n), ignore_errors=True)


# ---------------------------------------------------------------------------
# one run = one forked process

_PRELOADED = [False]


def preload():
    """Import (never execute) everything a run needs, once in the parent, so
    that forked runs do not pay for imports."""
    if _PRELOADED[0]:
        return
    _PRELOADED[0] = True
    import importlib
    for m in ('pico8.tool', 'pico8.build.build', 'pico8.game.file',
              'pico8.game.game', 'pico8.game.compress',
              'pico8.game.formatter.p8', 'pico8.game.formatter.p8png',
              'pico8.game.formatter.rom', 'pico8.lua.lua', 'pico8.lua.lexer',
              'pico8.lua.parser', 'pico8.gfx.gfx', 'pico8.gff.gff',
              'pico8.map.map', 'pico8.sfx.sfx', 'pico8.music.music', 'png',
              'tempfile', 'zlib', 'struct', 'argparse', 'csv', 'shutil',
              'picosim.world', 'picosim.refcodec', 'picosim.models'):
        try:
            importlib.import_module(m)
        except Exception:
            pass


def isolated(fn, *args, **kwargs):
    """Run fn(*args) in a forked child and return its (picklable) result.

    Every simulated run starts from the same process image (picotool imported,
    nothing executed), so process-wide state that a change to picotool might
    introduce (module-level caches, mutable defaults) can never leak from one
    run into the next: a violation is a function of the scenario alone and
    replays.  Histories that *should* see such state (two builds in one
    process, a reload after a rewrite) are written into the scenario itself.
    """
    import pickle
    if os.environ.get('PICOSIM_NO_FORK'):
        return fn(*args, **kwargs)
    preload()
    world_root()                 # make sure the directory exists in the parent
    r, w = os.pipe()
    sys.stdout.flush()
    sys.stderr.flush()
    pid = os.fork()
    if pid == 0:
        code = 0
        try:
            os.close(r)
            _IN_CHILD[0] = True
            try:
                out = ('ok', fn(*args, **kwargs))
            except BaseException:
                out = ('exc', traceback.format_exc())
            data = pickle.dumps(out, protocol=pickle.HIGHEST_PROTOCOL)
            with os.fdopen(w, 'wb') as fh:
                fh.write(data)
        except BaseException:
            code = 3
        finally:
            os._exit(code)
    os.close(w)
    chunks = []
    with os.fdopen(r, 'rb') as fh:
        while True:
            b = fh.read(1 << 16)
            if not b:
                break
            chunks.append(b)
    _, status = os.waitpid(pid, 0)
    data = b''.join(chunks)
    if not data:
        raise HarnessError('isolated run died (wait status %d)' % status)
    kind, val = pickle.loads(data)
    if kind == 'exc':
        raise HarnessError('executor raised:\n' + val)
    return val
