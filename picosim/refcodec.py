"""Reference cart model and reference .p8 / .p8.png codecs.

Written from the format descriptions (module docstrings, README, PICO-8 memory
map), not from picotool's code paths, and independent of pypng: the PNG side
uses zlib + struct.  They play "PICO-8" in the simulations (they create the
carts picotool reads) and decode what picotool writes.  Validated at self-test
time against the PICO-8-written pairs in tests/testdata.
"""

import struct
import zlib

from picosim import core

GFX, MAP, GFF, MUSIC, SFX = 'gfx', 'map', 'gff', 'music', 'sfx'
REGIONS = (GFX, MAP, GFF, MUSIC, SFX)            # memory order
REGION_SIZE = {GFX: 0x2000, MAP: 0x1000, GFF: 0x100, MUSIC: 0x100,
               SFX: 0x1100}
REGION_ADDR = {GFX: 0x0000, MAP: 0x2000, GFF: 0x3000, MUSIC: 0x3100,
               SFX: 0x3200}
CODE_ADDR = 0x4300
CODE_END = 0x8000
PNG_W, PNG_H = 160, 205

P8_HEADER = b'pico-8 cartridge // http://www.pico-8.com\n'

COMPRESS_TABLE = b'\n 0123456789abcdefghijklmnopqrstuvwxyz!#%(){}[]<>+=/*:;.,~_'


class RefCodecError(Exception):
    pass


# ---------------------------------------------------------------------------
# model

# bytes of a region held by one row of its .p8 text form
ROW_BYTES = {GFX: 64, MAP: 128, GFF: 128, MUSIC: 4, SFX: 68}


def empty_regions():
    r = {k: bytes(REGION_SIZE[k]) for k in REGIONS}
    # documented empty defaults: music channels silent, sfx note duration 1
    # for pattern 0 and 16 elsewhere
    r[MUSIC] = b'\x41\x42\x43\x44' * 64
    sfx = bytearray(REGION_SIZE[SFX])
    for i in range(64):
        sfx[i * 68 + 65] = 1 if i == 0 else 16
    r[SFX] = bytes(sfx)
    return r


def make_cart(version=33, code=b'', regions=None, label=None):
    c = {'version': version, 'code': bytes(code), 'label': label}
    base = empty_regions()
    if regions:
        base.update({k: bytes(v) for k, v in regions.items()})
    for k in REGIONS:
        if len(base[k]) != REGION_SIZE[k]:
            raise core.HarnessError('region %s has %d bytes' % (
                k, len(base[k])))
        c[k] = base[k]
    return c


def flat_memory(cart):
    return b''.join(cart[k] for k in REGIONS)


# ---------------------------------------------------------------------------
# .p8

def _hex(b):
    return bytes(b).hex().encode('ascii')


def p8_gfx_lines(data):
    out = []
    for i in range(0, len(data), 64):
        row = data[i:i + 64]
        out.append(_hex(bytes(((b & 0x0f) << 4) | (b >> 4) for b in row)) +
                   b'\n')
    return out


def p8_sfx_lines(data):
    out = []
    for i in range(64):
        pat = data[i * 68:(i + 1) * 68]
        parts = [_hex(pat[64:68])]
        for n in range(32):
            lsb, msb = pat[n * 2], pat[n * 2 + 1]
            pitch = lsb & 0x3f
            wave = (lsb >> 6) | ((msb & 1) << 2) | ((msb & 0x80) >> 4)
            vol = (msb >> 1) & 7
            eff = (msb >> 4) & 7
            parts.append(b'%02x%x%x%x' % (pitch, wave, vol, eff))
        out.append(b''.join(parts) + b'\n')
    return out


def p8_music_lines(data):
    out = []
    for i in range(64):
        b = data[i * 4:i * 4 + 4]
        flags = ((b[0] >> 7) | ((b[1] >> 7) << 1) | ((b[2] >> 7) << 2))
        out.append(b'%02x %02x%02x%02x%02x\n' % (
            flags, b[0] & 0x7f, b[1] & 0x7f, b[2] & 0x7f, b[3] & 0x7f))
    return out


def encode_p8(cart, style=None):
    """CartModel -> bytes of a .p8 file, the way PICO-8 writes one.

    style (optional): {'omit_empty': bool, 'order': [section names]} - PICO-8
    itself leaves out sections that hold only zeros, and nothing in the format
    fixes the order of the data sections."""
    style = style or {}
    out = [P8_HEADER, b'version %d\n' % cart['version'], b'__lua__\n']
    code = cart['code']
    if any(c >= 0x80 for c in code):
        # P8SCII glyphs are stored as Unicode in a .p8 file.  The table is
        # picotool's own (its bijectivity is property C15, not decided here);
        # it is used to *construct inputs* only, never as an oracle.
        from pico8.lua import lua as _lua
        code = _lua.p8scii_to_unicode(code).encode('utf-8')
    out.append(code)
    if not code.endswith(b'\n'):
        out.append(b'\n')
    secs = {}
    secs['gfx'] = [b'__gfx__\n'] + p8_gfx_lines(cart[GFX])
    if cart.get('label') is not None and cart['label'].get('p8') is not None:
        lab = cart['label']['p8']          # 128*128 pixel values 0..15
        secs['label'] = [b'__label__\n'] + [
            b''.join(b'%x' % p for p in lab[y * 128:(y + 1) * 128]) + b'\n'
            for y in range(128)]
    secs['gff'] = [b'__gff__\n'] + [_hex(cart[GFF][i:i + 128]) + b'\n'
                                     for i in range(0, 0x100, 128)]
    secs['map'] = [b'__map__\n'] + [_hex(cart[MAP][i:i + 128]) + b'\n'
                                     for i in range(0, 0x1000, 128)]
    secs['sfx'] = [b'__sfx__\n'] + p8_sfx_lines(cart[SFX])
    secs['music'] = [b'__music__\n'] + p8_music_lines(cart[MUSIC])
    order = list(style.get('order') or
                 ['gfx', 'label', 'gff', 'map', 'sfx', 'music'])
    for name in ('gfx', 'label', 'gff', 'map', 'sfx', 'music'):
        if name not in order:
            order.append(name)
    zero = {GFX: GFX, GFF: GFF, MAP: MAP}
    if style.get('strip_trailing_empty'):
        # rows at the end of a section that hold what an empty cart holds
        # there are left out, as PICO-8 does
        empty = empty_regions()
        for name in (GFX, GFF, MAP, MUSIC, SFX):
            rows = secs[name][1:]
            rb = ROW_BYTES[name]
            while rows and cart[name][(len(rows) - 1) * rb:len(rows) * rb] \
                    == empty[name][(len(rows) - 1) * rb:len(rows) * rb]:
                rows.pop()
            secs[name] = secs[name][:1] + rows
    for name in order:
        if name not in secs:
            continue
        if style.get('omit_empty') and name in zero and \
                not any(cart[zero[name]]):
            continue                 # all zeros: PICO-8 omits the section
        if name == 'gff' and not style.get('order'):
            out.append(b'\n')
        out.extend(secs[name])
    out.append(b'\n')
    return b''.join(out)


def decode_p8(data):
    """bytes of a .p8 file -> CartModel (label: {'p8': pixels} or None)."""
    lines = data.split(b'\n')
    if len(lines) < 2 or lines[0] + b'\n' != P8_HEADER:
        raise RefCodecError('bad .p8 header')
    if not lines[1].startswith(b'version '):
        raise RefCodecError('bad .p8 version line')
    try:
        version = int(lines[1][8:])
    except ValueError:
        raise RefCodecError('bad .p8 version number')
    sections = {}
    cur = None
    names = (b'lua', b'gfx', b'label', b'gff', b'map', b'sfx', b'music')
    for ln in lines[2:]:
        if len(ln) > 4 and ln.startswith(b'__') and ln.endswith(b'__') and \
                ln[2:-2] in names:
            cur = ln[2:-2].decode()
            if cur in sections:
                raise RefCodecError('duplicate section ' + cur)
            sections[cur] = []
        elif cur is not None:
            sections[cur].append(ln)
    regions = empty_regions()
    # an absent section decodes as zeros (PICO-8 omits all-zero tails)
    for k in REGIONS:
        regions[k] = bytes(REGION_SIZE[k])

    def hexrows(name, width_bytes, rows):
        buf = bytearray()
        got = [x for x in sections.get(name, []) if x.strip()]
        if len(got) > rows:
            raise RefCodecError('%s: %d rows' % (name, len(got)))
        for x in got:
            x = x.strip()
            if len(x) != width_bytes * 2:
                raise RefCodecError('%s: row of %d digits' % (name, len(x)))
            try:
                buf += bytes.fromhex(x.decode('ascii'))
            except ValueError:
                raise RefCodecError('%s: non-hex row' % name)
        buf += bytes(width_bytes * rows - len(buf))
        return bytes(buf)

    g = hexrows('gfx', 64, 128)
    regions[GFX] = bytes(((b & 0x0f) << 4) | (b >> 4) for b in g)
    regions[GFF] = hexrows('gff', 128, 2)
    regions[MAP] = hexrows('map', 128, 32)
    # sfx
    sfx = bytearray(REGION_SIZE[SFX])
    rows = [x.strip() for x in sections.get('sfx', []) if x.strip()]
    if len(rows) > 64:
        raise RefCodecError('sfx: %d rows' % len(rows))
    for i, x in enumerate(rows):
        if len(x) != 168:
            raise RefCodecError('sfx: row of %d digits' % len(x))
        try:
            hdr = bytes.fromhex(x[:8].decode('ascii'))
            sfx[i * 68 + 64:i * 68 + 68] = hdr
            for n in range(32):
                f = x[8 + n * 5:13 + n * 5]
                pitch = int(f[0:2], 16)
                wave = int(f[2:3], 16)
                vol = int(f[3:4], 16)
                eff = int(f[4:5], 16)
                if pitch > 63 or vol > 7 or eff > 7:
                    raise RefCodecError('sfx: field out of range')
                sfx[i * 68 + n * 2] = pitch | ((wave & 3) << 6)
                sfx[i * 68 + n * 2 + 1] = (((wave >> 2) & 1) | (vol << 1) |
                                           (eff << 4) | ((wave >> 3) << 7))
        except ValueError:
            raise RefCodecError('sfx: non-hex row')
    if 'sfx' not in sections:
        pass
    regions[SFX] = bytes(sfx)
    # music
    mus = bytearray(REGION_SIZE[MUSIC])
    rows = [x.strip() for x in sections.get('music', []) if x.strip()]
    if len(rows) > 64:
        raise RefCodecError('music: %d rows' % len(rows))
    for i, x in enumerate(rows):
        if len(x) != 11 or x[2:3] != b' ':
            raise RefCodecError('music: bad row %r' % x)
        try:
            flags = int(x[0:2], 16)
            ch = bytes.fromhex(x[3:].decode('ascii'))
        except ValueError:
            raise RefCodecError('music: non-hex row')
        mus[i * 4] = ch[0] | ((flags & 1) << 7)
        mus[i * 4 + 1] = ch[1] | (((flags >> 1) & 1) << 7)
        mus[i * 4 + 2] = ch[2] | (((flags >> 2) & 1) << 7)
        mus[i * 4 + 3] = ch[3]
    regions[MUSIC] = bytes(mus)
    label = None
    if 'label' in sections:
        rows = [x.strip() for x in sections['label'] if x.strip()]
        pix = bytearray()
        for x in rows:
            if len(x) != 128:
                raise RefCodecError('label: row of %d digits' % len(x))
            try:
                pix += bytes(int(chr(c), 16) for c in x)
            except ValueError:
                raise RefCodecError('label: non-hex pixel')
        if len(pix) != 128 * 128:
            raise RefCodecError('label: %d pixels' % len(pix))
        label = {'p8': bytes(pix)}
    code = b'\n'.join(sections.get('lua', []))
    if any(c >= 0x80 for c in code):
        try:
            from pico8.lua import lua as _lua
            code = _lua.unicode_to_p8scii(code.decode('utf-8'))
        except Exception as e:
            raise RefCodecError('code is not valid P8SCII-as-Unicode: %s' % e)
    # `lines` came from split('\n'): the section body ends with the newline
    # that precedes the next section marker
    if sections.get('lua'):
        code += b'\n'
    cart = {'version': version, 'code': code, 'label': label}
    cart.update(regions)
    return cart


# ---------------------------------------------------------------------------
# PNG (RGBA8, non-interlaced) with zlib + struct only

PNG_SIG = b'\x89PNG\r\n\x1a\n'


def _chunk(tag, data):
    return (struct.pack('>I', len(data)) + tag + data +
            struct.pack('>I', zlib.crc32(tag + data) & 0xffffffff))


def png_write_rgba(width, height, pixels):
    """pixels: bytes of width*height*4."""
    raw = bytearray()
    stride = width * 4
    for y in range(height):
        raw.append(0)
        raw += pixels[y * stride:(y + 1) * stride]
    return (PNG_SIG +
            _chunk(b'IHDR', struct.pack('>IIBBBBB', width, height, 8, 6,
                                        0, 0, 0)) +
            _chunk(b'IDAT', zlib.compress(bytes(raw), 6)) +
            _chunk(b'IEND', b''))


def png_read_rgba(data):
    """-> (width, height, pixels bytes RGBA).  Only 8-bit RGBA,
    non-interlaced (what PICO-8 and pypng-from-RGBA write)."""
    if data[:8] != PNG_SIG:
        raise RefCodecError('not a PNG')
    pos = 8
    idat = []
    ihdr = None
    seen_end = False
    while pos + 8 <= len(data):
        ln, tag = struct.unpack('>I4s', data[pos:pos + 8])
        body = data[pos + 8:pos + 8 + ln]
        if len(body) != ln or pos + 12 + ln > len(data):
            raise RefCodecError('truncated PNG chunk %r' % tag)
        crc, = struct.unpack('>I', data[pos + 8 + ln:pos + 12 + ln])
        if crc != (zlib.crc32(tag + body) & 0xffffffff):
            raise RefCodecError('bad CRC in chunk %r' % tag)
        pos += 12 + ln
        if tag == b'IHDR':
            ihdr = struct.unpack('>IIBBBBB', body)
        elif tag == b'IDAT':
            idat.append(body)
        elif tag == b'IEND':
            seen_end = True
            break
    if ihdr is None or not seen_end:
        raise RefCodecError('PNG without IHDR/IEND')
    width, height, depth, ctype, comp, filt, interlace = ihdr
    if (depth, ctype, interlace) != (8, 6, 0):
        raise RefCodecError('unsupported PNG type depth=%d color=%d '
                            'interlace=%d' % (depth, ctype, interlace))
    try:
        raw = zlib.decompress(b''.join(idat))
    except zlib.error as e:
        raise RefCodecError('bad zlib stream: %s' % e)
    stride = width * 4
    if len(raw) != (stride + 1) * height:
        raise RefCodecError('PNG data length %d' % len(raw))
    out = bytearray()
    prev = bytearray(stride)
    bpp = 4
    for y in range(height):
        ft = raw[y * (stride + 1)]
        line = bytearray(raw[y * (stride + 1) + 1:(y + 1) * (stride + 1)])
        if ft == 0:
            pass
        elif ft == 1:
            for i in range(bpp, stride):
                line[i] = (line[i] + line[i - bpp]) & 0xff
        elif ft == 2:
            for i in range(stride):
                line[i] = (line[i] + prev[i]) & 0xff
        elif ft == 3:
            for i in range(stride):
                a = line[i - bpp] if i >= bpp else 0
                line[i] = (line[i] + ((a + prev[i]) >> 1)) & 0xff
        elif ft == 4:
            for i in range(stride):
                a = line[i - bpp] if i >= bpp else 0
                b = prev[i]
                c = prev[i - bpp] if i >= bpp else 0
                p = a + b - c
                pa, pb, pc = abs(p - a), abs(p - b), abs(p - c)
                pr = a if (pa <= pb and pa <= pc) else (b if pb <= pc else c)
                line[i] = (line[i] + pr) & 0xff
        else:
            raise RefCodecError('bad PNG filter %d' % ft)
        out += line
        prev = line
    return width, height, bytes(out)


# ---------------------------------------------------------------------------
# .p8.png

def stego_embed(pixels, payload):
    """Put payload bytes into the low 2 bits of A,R,G,B of successive
    pixels (A=bits 7-6, R=5-4, G=3-2, B=1-0)."""
    px = bytearray(pixels)
    for i, b in enumerate(payload):
        o = i * 4
        px[o] = (px[o] & 0xfc) | ((b >> 4) & 3)
        px[o + 1] = (px[o + 1] & 0xfc) | ((b >> 2) & 3)
        px[o + 2] = (px[o + 2] & 0xfc) | (b & 3)
        px[o + 3] = (px[o + 3] & 0xfc) | ((b >> 6) & 3)
    return bytes(px)


def stego_extract(pixels, n):
    out = bytearray(n)
    for i in range(n):
        o = i * 4
        out[i] = (((pixels[o + 3] & 3) << 6) | ((pixels[o] & 3) << 4) |
                  ((pixels[o + 1] & 3) << 2) | (pixels[o + 2] & 3))
    return bytes(out)


def label_pixels(seed):
    """A 160x205 RGBA picture with seeded upper-6-bit content, alpha high."""
    raw = core.rnd_bytes(seed, PNG_W * PNG_H * 4)
    px = bytearray(raw)
    for i in range(3, len(px), 4):
        px[i] |= 0xfc
    for i in range(len(px)):
        px[i] &= 0xfc
    return bytes(px)


def upper_bits(pixels):
    return bytes(b & 0xfc for b in pixels)


def encode_p8png(cart, pixels=None):
    """CartModel -> bytes of a .p8.png file.  Code is stored raw (valid for
    every version; requires len(code) < 0x3d00)."""
    code = cart['code']
    if len(code) >= CODE_END - CODE_ADDR:
        raise core.HarnessError('code too long for raw storage')
    if pixels is None:
        if cart.get('label') is not None and \
                cart['label'].get('png_seed') is not None:
            pixels = label_pixels(cart['label']['png_seed'])
        else:
            pixels = bytes(b'\x00\x00\x00\xfc' * (PNG_W * PNG_H))
    payload = bytearray(flat_memory(cart))
    codearea = bytearray(CODE_END - CODE_ADDR)
    codearea[:len(code)] = code
    payload += codearea
    payload.append(cart['version'] & 0xff)
    payload += bytes(PNG_W * PNG_H - len(payload))
    return png_write_rgba(PNG_W, PNG_H, stego_embed(pixels, payload))


def decompress_old(codearea):
    """`:c:` format -> code bytes (byte-by-byte back-references)."""
    n = (codearea[4] << 8) | codearea[5]
    out = bytearray()
    i = 8
    while len(out) < n and i < len(codearea):
        b = codearea[i]
        if b == 0:
            out.append(codearea[i + 1])
            i += 2
        elif b <= 0x3b:
            out.append(COMPRESS_TABLE[b - 1])
            i += 1
        else:
            off = (b - 0x3c) * 16 + (codearea[i + 1] & 0xf)
            ln = (codearea[i + 1] >> 4) + 2
            if off == 0 or off > len(out):
                raise RefCodecError('bad back-reference')
            for _ in range(ln):
                out.append(out[-off])
            i += 2
    return bytes(out[:n])


FUTURE1 = b'if(_update60)_update=function()_update60()_update60()end'
FUTURE2 = (b'if(_update60)_update=function()'
           b'_update60()_update_buttons()_update60()end')


def decode_p8png(data):
    """bytes of a .p8.png -> CartModel; label: {'png_upper': bytes}."""
    w, h, px = png_read_rgba(data)
    if (w, h) != (PNG_W, PNG_H):
        raise RefCodecError('PNG is %dx%d' % (w, h))
    mem = stego_extract(px, 0x8001)
    cart = {'version': mem[0x8000]}
    for k in REGIONS:
        cart[k] = mem[REGION_ADDR[k]:REGION_ADDR[k] + REGION_SIZE[k]]
    area = mem[CODE_ADDR:CODE_END]
    if area[:4] == b':c:\x00' and cart['version'] != 0:
        code = decompress_old(area)
        for fut in (FUTURE1, FUTURE2):
            if code.endswith(fut):
                code = code[:-len(fut)]
                if code.endswith(b'\n'):
                    code = code[:-1]
    elif area[:4] == b'\x00pxa':
        raise RefCodecError('pxa-compressed code not supported')
    else:
        z = area.find(b'\x00')
        code = area if z < 0 else area[:z]
    cart['code'] = bytes(code)
    cart['label'] = {'png_upper': upper_bits(px)}
    return cart


def decode_any(name, data):
    if name.endswith('.p8.png'):
        return decode_p8png(data)
    if name.endswith('.p8'):
        return decode_p8(data)
    raise core.HarnessError('unknown cart type ' + name)


def encode_any(name, cart):
    if name.endswith('.p8.png'):
        return encode_p8png(cart)
    if name.endswith('.p8'):
        return encode_p8(cart)
    raise core.HarnessError('unknown cart type ' + name)


# ---------------------------------------------------------------------------
# seeded carts (scenario-level description -> CartModel)

def cart_from_spec(spec):
    """spec: {'version', 'code': bytes-enc, 'regions': {name: seed|'zero'|
    'empty'|bytes-enc}, 'label': None|{'p8_seed': n}|{'png_seed': n}}"""
    regions = {}
    for k in REGIONS:
        r = (spec.get('regions') or {}).get(k, 'empty')
        if r == 'empty':
            continue
        if r == 'zero':
            regions[k] = bytes(REGION_SIZE[k])
        elif isinstance(r, dict) and '$head' in r:
            # the first `rows` rows of the section's text form hold seeded
            # bytes, the rest is as in an empty cart (PICO-8 leaves such
            # trailing rows out of the .p8 file)
            n = max(0, min(r['rows'], REGION_SIZE[k] // ROW_BYTES[k])) * \
                ROW_BYTES[k]
            b = bytearray(core.rnd_bytes(r['$head'], n)) + bytearray(
                empty_regions()[k][n:])
            if k == MUSIC:
                for i in range(3, n, 4):
                    b[i] &= 0x7f
            regions[k] = bytes(b)
        elif isinstance(r, dict) and '$fill' in r:
            # every byte the same value (0xff, 0x80, 0x7f, ...)
            b = bytearray([r['$fill'] & 0xff]) * REGION_SIZE[k]
            if k == MUSIC:
                for i in range(3, len(b), 4):
                    b[i] &= 0x7f
            regions[k] = bytes(b)
        elif isinstance(r, int):
            b = bytearray(core.rnd_bytes(r, REGION_SIZE[k]))
            if k == MUSIC:
                # bit 7 of every 4th byte has no .p8 representation
                for i in range(3, len(b), 4):
                    b[i] &= 0x7f
            regions[k] = bytes(b)
        else:
            regions[k] = core.dec_bytes(r)
    label = None
    ls = spec.get('label')
    if ls:
        label = {}
        if ls.get('p8_seed') is not None:
            label['p8'] = bytes(b & 0x0f for b in core.rnd_bytes(
                ls['p8_seed'], 128 * 128))
        if ls.get('png_seed') is not None:
            label['png_seed'] = ls['png_seed']
    return make_cart(version=spec.get('version', 33),
                     code=core.dec_bytes(spec.get('code', {'$txt': ''})),
                     regions=regions, label=label)
