"""The simulated world: store directory, environment, I/O history (audit
hook), crash injection (sys.settrace), write faults (FaultyStream on the
encoder's output stream).  Runs the real picotool; nothing here is a fake of
picotool itself."""

import errno
import io
import os
import shutil
import sys

from picosim import core

REPO = core.REPO
PICO8_DIR = os.path.join(REPO, 'pico8') + os.sep


class SimCrash(Exception):
    """An injected failure at an arbitrary point inside picotool."""


class SimWriteFault(OSError):
    """An injected failure of a write on the encoder's output stream."""


EXC_KINDS = {
    'SimCrash': SimCrash,
    'MemoryError': MemoryError,
    'KeyboardInterrupt': KeyboardInterrupt,
}

# ---------------------------------------------------------------------------
# I/O history via audit hook

_audit = {'on': False, 'root': None, 'events': None, 'installed': False}


def _audit_hook(event, args):
    if not _audit['on'] or event != 'open':
        return
    path = args[0]
    if isinstance(path, bytes):
        try:
            path = path.decode()
        except UnicodeDecodeError:
            return
    if not isinstance(path, str):
        return
    root = _audit['root']
    if os.path.isabs(path):
        full = os.path.normpath(path)
    else:
        try:
            full = os.path.normpath(os.path.join(os.getcwd(), path))
        except OSError:
            return           # (the working directory no longer exists)
    if full == root or full.startswith(root + os.sep):
        tmp = root + os.sep + 'tmp'
        if full == tmp or full.startswith(tmp + os.sep):
            return       # the run's own TMPDIR: anonymous scratch files
        mode = args[1]
        flags = args[2] if len(args) > 2 else 0
        if mode is None:
            # os.open: derive a mode string from the flags
            acc = flags & os.O_ACCMODE
            mode = {os.O_RDONLY: 'r', os.O_WRONLY: 'w',
                    os.O_RDWR: 'r+'}.get(acc, '?')
            if flags & os.O_TRUNC or flags & os.O_CREAT:
                mode = 'w'
        writing = any(c in mode for c in 'wax+')
        _audit['events'].append(
            ('$ROOT' + full[len(root):], 'w' if writing else 'r'))


def install_audit():
    if not _audit['installed']:
        sys.addaudithook(_audit_hook)
        _audit['installed'] = True


# ---------------------------------------------------------------------------
# crash injection through sys.settrace

class Tracer:
    """Counts line events in frames of /repo/pico8 and raises the planned
    exception at the planned (file, line, hit).  With plan None it only
    profiles (site -> hits, in first-seen order)."""

    def __init__(self, plan=None, profile=False, step_cap=None):
        self.plan = plan
        self.profile = {} if profile else None
        self.armed = True
        self.fired = None
        self.steps = 0
        self.step_cap = step_cap
        self.cap_hit = False
        self._hits = 0
        if plan:
            self._file = os.path.join(REPO, plan['site'][0])
            self._line = plan['site'][1]
            self._target = plan['hit']
            self._exc = EXC_KINDS[plan['exc']]

    def global_trace(self, frame, event, arg):
        if frame.f_code.co_filename.startswith(PICO8_DIR):
            return self.local_trace
        return None

    def local_trace(self, frame, event, arg):
        if event != 'line' or not self.armed:
            return self.local_trace
        self.steps += 1
        if self.step_cap is not None and self.steps > self.step_cap:
            self.armed = False
            self.cap_hit = True
            raise SimStepCap('step cap %d exceeded' % self.step_cap)
        if self.profile is not None:
            key = (frame.f_code.co_filename[len(REPO) + 1:], frame.f_lineno,
                   frame.f_code.co_name)
            self.profile[key] = self.profile.get(key, 0) + 1
        if self.plan is not None and frame.f_lineno == self._line and \
                frame.f_code.co_filename == self._file:
            self._hits += 1
            if self._hits == self._target:
                self.armed = False
                self.fired = (self.plan['site'][0], self._line,
                              frame.f_code.co_name)
                raise self._exc('injected crash at %s:%d hit %d' % (
                    self.plan['site'][0], self._line, self._target))
        return self.local_trace

    def __enter__(self):
        sys.settrace(self.global_trace)
        return self

    def __exit__(self, *a):
        sys.settrace(None)
        return False


class SimStepCap(BaseException):
    """The run exceeded its step budget (non-termination detector)."""


# ---------------------------------------------------------------------------
# write faults on the encoder's stream

class FaultyStream:
    """Proxy for the encoder's output stream.  Counts write calls; at the
    planned index raises OSError after storing nothing (W-ERR) or a prefix
    (W-TORN)."""

    def __init__(self, inner, plan, ctl):
        self._inner = inner
        self._plan = plan
        self._ctl = ctl

    def write(self, data):
        ctl = self._ctl
        k = ctl['writes']
        ctl['writes'] = k + 1
        ctl['bytes'] += len(data)
        plan = self._plan
        if plan is not None and not ctl['fired'] and k == plan['k']:
            ctl['fired'] = plan['kind']
            ctl['fired_at'] = k
            if plan['kind'] == 'W-TORN':
                n = int(len(data) * plan.get('frac', 0.5))
                if n:
                    self._inner.write(bytes(data[:n]))
            raise SimWriteFault(
                errno.ENOSPC if plan.get('errno') == 'ENOSPC' else errno.EIO,
                'injected write fault at write #%d' % k)
        return self._inner.write(data)

    def writelines(self, lines):
        for line in lines:
            self.write(line)

    def __getattr__(self, name):
        return getattr(self._inner, name)

    def __enter__(self):
        return self

    def __exit__(self, *a):
        return self._inner.__exit__(*a)

    def __iter__(self):
        return iter(self._inner)


# the encoder bracket ---------------------------------------------------------

_enc = {'installed': False, 'ctl': None, 'plan': None, 'on_return': None,
        'on_enter': None}


def new_ctl():
    return {'writes': 0, 'bytes': 0, 'fired': None, 'fired_at': None,
            'entered': 0, 'returned': 0, 'stream_kind': None, 'calls': [], 'writes_api': []}


def install_encoder_bracket():
    """Wrap P8Formatter.to_file / P8PNGFormatter.to_file once per process.
    Whatever stream object file.to_file (or a changed version of it) hands to
    the encoder is proxied by a FaultyStream while a run is active."""
    if _enc['installed']:
        return
    from pico8.game.formatter.p8 import P8Formatter
    from pico8.game.formatter.p8png import P8PNGFormatter

    def wrap(cls):
        orig = cls.__dict__['to_file'].__func__

        def to_file(klass, game, outstr, *args, **kwargs):
            ctl = _enc['ctl']
            if ctl is None:
                return orig(klass, game, outstr, *args, **kwargs)
            ctl['entered'] += 1
            ctl['stream_kind'] = type(outstr).__name__
            cb = _enc['on_enter']
            if cb is not None:
                cb()
            fname = kwargs.get('filename')
            if fname is None and len(args) >= 3:
                fname = args[2]
            call = [os.path.abspath(fname) if isinstance(fname, str)
                    else fname, False]
            ctl['calls'].append(call)
            proxy = FaultyStream(outstr, _enc['plan'], ctl)
            r = orig(klass, game, proxy, *args, **kwargs)
            ctl['returned'] += 1
            call[1] = True
            cb = _enc['on_return']
            if cb is not None:
                cb()
            return r
        to_file.__wrapped__ = orig
        cls.to_file = classmethod(to_file)
    wrap(P8Formatter)
    wrap(P8PNGFormatter)
    try:
        # every other registered formatter (e.g. the unimplemented .rom one)
        from pico8.game import file as _pf
        for f in getattr(_pf, 'FORMATTERS', ()):
            if f.cls not in (P8Formatter, P8PNGFormatter) and \
                    'to_file' in f.cls.__dict__:
                wrap(f.cls)
    except Exception:
        pass
    # the public whole-write entry point: records which destinations were
    # completely written (used to attribute failures of multi-file commands)
    from pico8.game import file as pfile
    orig_to_file = pfile.to_file

    def to_file(game, filename, *args, **kwargs):
        ctl = _enc['ctl']
        if ctl is None:
            return orig_to_file(game, filename, *args, **kwargs)
        call = [os.path.abspath(filename) if isinstance(filename, str)
                else filename, False]
        ctl['writes_api'].append(call)
        r = orig_to_file(game, filename, *args, **kwargs)
        call[1] = True
        return r
    to_file.__wrapped__ = orig_to_file
    pfile.to_file = to_file
    _enc['installed'] = True


class EncoderRun:
    """Context manager activating the encoder bracket for one operation."""

    def __init__(self, write_plan=None, on_return=None, on_enter=None):
        self.ctl = new_ctl()
        self.write_plan = write_plan
        self.on_return = on_return
        self.on_enter = on_enter

    def __enter__(self):
        install_encoder_bracket()
        _enc['ctl'] = self.ctl
        _enc['plan'] = self.write_plan
        _enc['on_return'] = self.on_return
        _enc['on_enter'] = self.on_enter
        return self.ctl

    def __exit__(self, *a):
        _enc['ctl'] = None
        _enc['plan'] = None
        _enc['on_return'] = None
        _enc['on_enter'] = None
        return False


# ---------------------------------------------------------------------------
# the world

_RUN_COUNTER = [0]


class World:
    """A fresh store directory + environment for one simulated run."""

    def __init__(self, env=None, cwd=None, recursion=None):
        self.base = core.world_root()
        # a fresh directory name per run: path-keyed state inside picotool
        # (should a change introduce any) cannot leak from one run to the next
        # through a reused path; all logging is $ROOT-relative
        _RUN_COUNTER[0] += 1
        self.root = os.path.join(self.base, 'r%d' % _RUN_COUNTER[0])
        self.env = env or {}
        self.cwd = cwd
        self.recursion = recursion
        self.opens = []
        self._saved = None

    # paths -----------------------------------------------------------------
    def p(self, rel):
        """$ROOT-relative name -> real path."""
        if rel.startswith('$ROOT'):
            rel = rel[len('$ROOT'):].lstrip('/')
        return os.path.join(self.root, rel) if rel else self.root

    def subst(self, s):
        return s.replace('$ROOT', self.root)

    def unsubst(self, s):
        return s.replace(self.root, '$ROOT')

    # files -----------------------------------------------------------------
    def put(self, rel, data):
        path = self.p(rel)
        os.makedirs(os.path.dirname(path), exist_ok=True)
        with io.open(path, 'wb') as fh:
            fh.write(data)

    def put_keep_times(self, rel, data):
        """Rewrite a file in place and give it its previous timestamps back
        (what `rsync -t`, `tar -x`, `cp -p` or a coarse file-system clock do):
        contents change, (mtime, size) need not."""
        path = self.p(rel)
        st = os.stat(path) if os.path.isfile(path) else None
        self.put(rel, data)
        if st is not None:
            os.utime(path, ns=(st.st_atime_ns, st.st_mtime_ns))
        return st is not None and st.st_size == len(data)

    def mkdir(self, rel):
        os.makedirs(self.p(rel), exist_ok=True)

    def snap(self, rel):
        """(exists, is_file, bytes[, link target]) of a path; for a symbolic
        link the link itself is part of the state."""
        path = self.p(rel)
        if not os.path.lexists(path):
            return (False, False, None)
        link = os.readlink(path) if os.path.islink(path) else None
        if not os.path.isfile(path):
            return (True, False, None) + ((link,) if link else ())
        with io.open(path, 'rb') as fh:
            return (True, True, fh.read()) + ((link,) if link else ())

    def listing(self):
        out = []
        for d, dirs, files in os.walk(self.root):
            dirs.sort()
            for f in sorted(files):
                out.append(os.path.relpath(os.path.join(d, f), self.root))
        return sorted(out)

    # lifecycle ---------------------------------------------------------------
    def __enter__(self):
        from pico8 import util
        install_audit()
        shutil.rmtree(self.root, ignore_errors=True)
        os.makedirs(self.root)
        self._saved = {
            'cwd': os.getcwd(),
            'env': {k: os.environ.get(k) for k in
                    set(('HOME', 'PICO8_LUA_PATH', 'TMPDIR')) |
                    set(self.env)},
            'reclimit': sys.getrecursionlimit(),
            'streams': (util._write_stream, util._error_stream),
            'stdout': sys.stdout, 'stderr': sys.stderr,
        }
        self.out = io.StringIO()
        self.err = io.StringIO()
        util._write_stream = self.out
        util._error_stream = self.err
        util.set_verbosity(util.VERBOSITY_NORMAL)
        sys.stdout = self.out
        sys.stderr = self.err
        for k in ('HOME', 'PICO8_LUA_PATH', 'TMPDIR'):
            v = self.env.get(k)
            if v is None:
                if k != 'TMPDIR':
                    os.environ.pop(k, None)
            else:
                os.environ[k] = self.subst(v)
        # temporary files live inside the world too: no run ever touches
        # the machine-wide /tmp, where concurrent runs could meet
        import tempfile
        if not self.env.get('TMPDIR'):
            os.environ['TMPDIR'] = self.p('tmp')
        os.makedirs(os.environ['TMPDIR'], exist_ok=True)
        tempfile.tempdir = None          # forget the cached directory
        for k, v in self.env.items():
            if k not in ('HOME', 'PICO8_LUA_PATH', 'TMPDIR') and \
                    v is not None:
                os.environ[k] = self.subst(v)
        if 'HOME' not in self.env:
            os.environ['HOME'] = self.p('home')
        os.chdir(self.p(self.cwd) if self.cwd else self.root)
        if self.recursion:
            sys.setrecursionlimit(self.recursion)
        return self

    def start_io_log(self):
        self.opens = []
        _audit['root'] = self.root
        _audit['events'] = self.opens
        _audit['on'] = True

    def stop_io_log(self):
        _audit['on'] = False
        return self.opens

    def __exit__(self, *a):
        from pico8 import util
        _audit['on'] = False
        sys.settrace(None)
        s = self._saved
        sys.stdout, sys.stderr = s['stdout'], s['stderr']
        util._write_stream, util._error_stream = s['streams']
        util.set_verbosity(util.VERBOSITY_NORMAL)
        sys.setrecursionlimit(s['reclimit'])
        os.chdir(s['cwd'])
        import tempfile
        tempfile.tempdir = None
        for k, v in s['env'].items():
            if v is None:
                os.environ.pop(k, None)
            else:
                os.environ[k] = v
        shutil.rmtree(self.root, ignore_errors=True)
        return False


def describe_exc(e, world=None):
    """Deterministic, path-independent description of an exception."""
    s = '%s: %s' % (type(e).__name__, e)
    if world is not None:
        s = world.unsubst(s)
    return s[:300]
