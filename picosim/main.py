"""picosim driver.

  main.py <property> [--tier quick|thorough] [--runs N]
  main.py <property> --replay FILE
  main.py <property> --digest-jobs A:B        (internal: determinism self-test)
  main.py selftest-codec | selftest-determinism | selftest-mutants

Run as a script (not -m).  Exit 0 held / 1 violation / 2 harness error.
"""

import os
import sys

_HERE = os.path.dirname(os.path.abspath(__file__))
_VERIF = os.path.dirname(_HERE)
_REPO = os.environ.get('PICOSIM_REPO', '/repo')

if os.environ.get('PYTHONHASHSEED') is None:
    # fix the hash seed: one fewer source of run-to-run variation
    os.environ['PYTHONHASHSEED'] = '0'
    os.execv(sys.executable, [sys.executable] + sys.argv)

sys.dont_write_bytecode = True
for p in (_VERIF, _REPO):
    while p in sys.path:
        sys.path.remove(p)
sys.path.insert(0, _VERIF)
sys.path.insert(0, _REPO)
if _HERE in sys.path:
    sys.path.remove(_HERE)

import argparse      # noqa: E402
import json          # noqa: E402
import subprocess    # noqa: E402
import time          # noqa: E402
import traceback     # noqa: E402

from picosim import core, registry    # noqa: E402


def log(msg):
    # (the same bytes under every locale: messages quote cart contents)
    print(str(msg).encode('ascii', 'backslashreplace').decode('ascii'),
          flush=True)


def check_repo_import():
    import pico8
    f = os.path.abspath(pico8.__file__)
    if not f.startswith(os.path.abspath(_REPO) + os.sep):
        raise core.HarnessError('pico8 imported from %s, not from %s' % (
            f, _REPO))


# ---------------------------------------------------------------------------
# jobs

def default_jobs(engine, prop, tier, seed, runs):
    jobs = regression_jobs(prop)
    enum = engine.enumerated(prop, tier, seed) if hasattr(
        engine, 'enumerated') else []
    if os.environ.get('PICOSIM_CONFIG') and len(enum) > 500:
        # configuration slices sample the enumerated space instead of
        # repeating it
        step = len(enum) // 500
        enum = enum[::step]
    for i, sc in enumerate(enum):
        jobs.append({'kind': 'scenario', 'scenario': sc, 'enum': True})
    for i in range(runs):
        jobs.append({'kind': 'gen', 'prop': prop, 'tier': tier, 'seed': seed,
                     'index': i})
    return jobs


def regression_jobs(prop):
    """Minimised scenarios of defects found earlier (and since repaired) are
    replayed first on every run, so each would be reported again if it ever
    returned."""
    import glob
    out = []
    for p in sorted(glob.glob(os.path.join(core.REGRESSION_DIR, prop,
                                           '*.json'))):
        doc = core.read_replay(p)
        out.append({'kind': 'scenario', 'scenario': doc['scenario'],
                    'enum': True, 'regression': os.path.basename(p)})
    return out


def run_job(engine, job, keep_events=False):
    """-> list of (scenario, result).  Scenario is always returned here; the
    worker wrapper drops it when it is not needed."""
    if hasattr(engine, 'run_job') and job['kind'] not in ('scenario', 'gen'):
        out = engine.run_job(job)
        for sc, r in out:
            core.finish_result(r, keep_events)
        return out
    if job['kind'] == 'scenario':
        sc = job['scenario']
    else:
        rng = core.derive_rng(job['seed'], job['prop'], job['index'])
        sc = engine.generate(rng, job['prop'], job['tier'], job['index'])
    r = core.isolated(engine.execute, sc)
    core.finish_result(r, keep_events)
    return [(sc, r)]


_W = {}


def _winit(engine_name):
    import faulthandler
    faulthandler.enable()
    _W['engine'] = registry.load_engine(engine_name)


def _wrun(item):
    import faulthandler
    idx, job, want_sample = item
    faulthandler.dump_traceback_later(300, exit=True)
    try:
        out = run_job(_W['engine'], job)
        slim = []
        for sc, r in out:
            keep_sc = bool(r['violations']) or want_sample
            slim.append((sc if keep_sc else None, r))
        return idx, slim, None
    except BaseException:
        return idx, None, traceback.format_exc() + '\njob: ' + \
            core.dumps(job)[:2000]
    finally:
        faulthandler.cancel_dump_traceback_later()


def run_jobs(engine_name, jobs, wall_cap, workers=None, n_samples=4,
             chunk=None):
    import concurrent.futures
    import multiprocessing
    workers = workers or core.n_workers()
    ctx = multiprocessing.get_context('fork')
    items = [(i, j, i < n_samples or (j.get('enum') and i % 97 == 0))
             for i, j in enumerate(jobs)]
    out = [None] * len(items)
    chunk = chunk or max(1, min(50, len(items) // (workers * 6) or 1))
    ex = concurrent.futures.ProcessPoolExecutor(
        max_workers=workers, mp_context=ctx, initializer=_winit,
        initargs=(engine_name,))
    try:
        for idx, slim, err in ex.map(_wrun, items, chunksize=chunk,
                                     timeout=wall_cap):
            if err is not None:
                raise core.HarnessError('executor raised in job %d:\n%s' % (
                    idx, err))
            out[idx] = slim
    except concurrent.futures.TimeoutError:
        raise core.HarnessError('wall cap of %ds exceeded' % wall_cap)
    except concurrent.futures.process.BrokenProcessPool as e:
        raise core.HarnessError('a worker process died: %r' % (e,))
    finally:
        ex.shutdown(wait=False, cancel_futures=True)
    return out


# ---------------------------------------------------------------------------
# check

COMPONENTS = {
    'real': ['picotool (all of /repo/pico8, current working tree)', 'pypng',
             'CPython file I/O on a tmpfs directory', 'argparse CLI via '
             'pico8.tool.main'],
    'stub': ['FaultyStream proxy around the encoder output stream (only in '
             'fault-injecting runs)'],
    'model': ['reference .p8/.p8.png codecs (zlib+struct, independent of '
              'pypng)', 'MemModel / StoreModel / path-jail model / splice '
              'model / package-graph model (oracles)'],
}


def run_check(prop, tier, runs_override=None):
    t0 = time.time()
    seed = core.get_seed()
    engine_name, level = registry.CHECKS[prop]
    engine = registry.load_engine(engine_name)
    log('picosim: property=%s engine=%s tier=%s VERIF_SEED=%d repo=%s '
        'PYTHONHASHSEED=%s workers=%d' % (
            prop, engine_name, tier, seed, _REPO,
            os.environ.get('PYTHONHASHSEED'), core.n_workers()))
    core.sweep_stale_worlds()
    plan = engine.plan(prop, tier)
    runs = runs_override if runs_override is not None else int(
        os.environ.get('PICOSIM_RUNS', plan['runs']))
    wall_cap = int(os.environ.get(
        'PICOSIM_WALL', plan.get('wall_cap', 600 if tier == 'quick'
                                 else 4 * 3600)))
    if hasattr(engine, 'jobs'):
        jobs = engine.jobs(prop, tier, seed, runs)
    else:
        jobs = default_jobs(engine, prop, tier, seed, runs)
    log('picosim: %d jobs' % len(jobs))
    results = run_jobs(engine_name, jobs, wall_cap, chunk=plan.get('chunk'))

    agg = core.Agg()
    samples = []
    first_by_class = {}
    job_digests = []
    n_enum = 0
    for idx, slim in enumerate(results):
        dj = []
        for sc, r in slim:
            agg.add(idx, r)
            dj.append(r['digest'])
            if jobs[idx].get('enum'):
                n_enum += 1
            if sc is not None and not r['violations'] and len(samples) < 6:
                samples.append(_sample(sc))
            for v in r['violations']:
                if v['property'] != prop:
                    continue
                key = (v['vclass'], v['sig'])
                if key not in first_by_class:
                    first_by_class[key] = (sc, v, idx)
        job_digests.append(core.sha(dj))
    t_run = time.time() - t0

    # determinism slice: a few jobs again, in a fresh interpreter, under a
    # different hash seed, must give identical event-log digests
    det = determinism_slice(prop, tier, jobs, job_digests, runs)

    # configuration slice: part of the run is repeated in an interpreter
    # started with -O (assert statements compiled out), a legitimate way to
    # run picotool in which the properties must hold just the same
    opt = optimized_slice(prop, tier, runs, plan)
    known = core.load_known_findings()
    n_viol = 0
    n_known = 0
    printed_known = set()
    reported = []
    budget_left = int(os.environ.get('PICOSIM_MAX_REPORTS', '6'))
    for key in sorted(first_by_class):
        sc, v, idx = first_by_class[key]
        k = core.match_known(v, known)
        if k is not None:
            n_known += 1
            if k['sig'] not in printed_known:
                printed_known.add(k['sig'])
                log('KNOWN-FINDING: property=%s %s' % (prop, k['what']))
            continue
        n_viol += 1
        if budget_left <= 0:
            continue
        budget_left -= 1
        log('picosim: violation class %s (job %d): %s' % (
            v['vclass'], idx, v['detail'][:300]))
        if hasattr(engine, 'pin'):
            sc = engine.pin(sc)
        try:
            small, v2, used = core.minimise(engine, sc, v, budget=int(
                os.environ.get('PICOSIM_SHRINK', '300')), log=None)
        except core.HarnessError as e:
            log('HARNESS-ERROR: %s' % e)
            return core.EXIT_HARNESS
        # the minimised scenario may land on a known finding: keep looking
        k2 = core.match_known(v2, known)
        if k2 is not None and core.match_known(v, known) is None:
            small, v2 = sc, v
        path = core.write_replay(prop, small, v2, {
            'seed': seed, 'tier': tier, 'minimiser_executions': used,
            'interpreter': {'config': os.environ.get('PICOSIM_CONFIG')}})
        code, out = core.replay_in_fresh_process(prop, path)
        if code != core.EXIT_VIOLATION:
            log('HARNESS-ERROR: replay %s did not reproduce in a fresh '
                'process (exit %d)\n%s' % (path, code, out[-2000:]))
            return core.EXIT_HARNESS
        reported.append({'vclass': v2['vclass'], 'sig': v2['sig'],
                         'detail': v2['detail'], 'replay': path})
        log('VIOLATION property=%s replay=%s' % (prop, path))
        log('  class: %s\n  what: %s' % (v2['vclass'], v2['detail'][:600]))

    wall = time.time() - t0
    nruns = agg.runs
    coverage = {
        'evaluations': nruns,
        'distinct_nontrivial': len(agg.nontrivial_states),
        'rule': engine.RULE[prop] + getattr(engine, 'RULE_MORE', {}).get(
            prop, ''),
        'samples': samples[:6],
        'exhaustive': False,
        'enumerated_runs': n_enum,
        'nontrivial_runs': agg.nontrivial_runs,
        'uninformative_runs': agg.uninformative,
        'distinct_states': len(agg.states),
        'states_measure': 'distinct tuples as described in rule',
        'state_tuples_sample': sorted(agg.states)[:40],
        'logical_steps': agg.n_events,
        'faults_fired': dict(sorted(agg.faults.items())),
        'operations': dict(sorted(agg.ops.items())),
        'probes': dict(sorted(agg.probes.items())),
        'runs_per_hour': int(nruns / max(t_run, 1e-6) * 3600),
        'seeds_per_hour': int(len(jobs) / max(t_run, 1e-6) * 3600),
        'simulated_time': 'n/a: picotool has no clock, timer or scheduler; '
                          'logical steps (operations, stream writes, traced '
                          'line events) are counted instead',
        'interleavings': ('two lexers stepped alternately at chunk '
                          'boundaries (the only concurrency picotool has: '
                          'lazily expanded includes); otherwise n/a'
                          if prop == 'C07' else
                          'n/a: single-threaded synchronous code; the search '
                          'is over operation/fault sequences, environments '
                          'and interpreter configurations'),
        'components': COMPONENTS,
        'determinism': det,
        'optimized_interpreter_slice': opt,
        'batch_digest': agg.batch_digest(),
        'known_findings_seen': n_known,
        'violations_reported': reported,
    }
    if hasattr(engine, 'coverage_extra'):
        coverage.update(engine.coverage_extra(prop, tier, agg, jobs))
    if not coverage['samples']:
        coverage['samples'] = [r for r in reported] or ['(none)']
    assumptions = list(getattr(engine, 'ASSUMPTIONS', {}).get(prop, []))
    core.write_evidence(prop, tier, seed, level, coverage, wall, n_viol,
                        assumptions)
    log('picosim: %d runs in %.1fs (%.0f/h), %d distinct states, '
        '%d non-trivial distinct, faults fired: %s' % (
            nruns, wall, nruns / max(t_run, 1e-6) * 3600, len(agg.states),
            len(agg.nontrivial_states), dict(agg.faults)))
    missing = [p for p in getattr(engine, 'REQUIRED_PROBES', {}).get(
        (prop, tier), []) if not agg.probes.get(p)]
    if missing:
        log('picosim: note: reach probes at zero: %s' % ', '.join(missing))
    if det.get('status') == 'mismatch':
        log('HARNESS-ERROR: determinism slice mismatch: %s' % det)
        return core.EXIT_HARNESS
    if opt.get('status') == 'harness-error':
        log('HARNESS-ERROR: -O slice: %s' % opt.get('why'))
        return core.EXIT_HARNESS
    if n_viol or opt.get('status') == 'violation':
        return core.EXIT_VIOLATION
    log('picosim: property %s held on everything explored' % prop)
    return core.EXIT_HELD


def _sample(sc):
    s = core.dumps(sc)
    if len(s) > 3000:
        return {'scenario_truncated': s[:3000]}
    return json.loads(s)


def determinism_slice(prop, tier, jobs, job_digests, runs, n=6):
    if os.environ.get('PICOSIM_NO_DET'):
        return {'status': 'skipped'}
    n = min(n, len(jobs))
    if n == 0:
        return {'status': 'skipped'}
    # pick a spread of job indices
    idxs = sorted({int(i * (len(jobs) - 1) / max(1, n - 1)) for i in range(n)})
    env = dict(os.environ)
    env['PYTHONHASHSEED'] = '12345'
    env['PICOSIM_NO_DET'] = '1'
    env['PICOSIM_RUNS'] = str(runs)
    try:
        p = subprocess.run(
            [sys.executable, os.path.join(_HERE, 'main.py'), prop,
             '--tier', tier, '--digest-jobs', ','.join(map(str, idxs))],
            env=env, stdout=subprocess.PIPE, stderr=subprocess.PIPE,
            timeout=600)
    except subprocess.TimeoutExpired:
        return {'status': 'mismatch', 'why': 'fresh interpreter timed out'}
    if p.returncode != 0:
        return {'status': 'mismatch', 'why': 'fresh interpreter exit %d: %s'
                % (p.returncode, p.stderr.decode('utf-8', 'replace')[-800:])}
    got = json.loads(p.stdout.decode().strip().splitlines()[-1])
    want = {str(i): job_digests[i] for i in idxs}
    bad = [i for i in want if got.get(i) != want[i]]
    return {'status': 'mismatch' if bad else 'ok', 'jobs_rerun': len(idxs),
            'fresh_interpreter_hashseed': '12345', 'mismatching_jobs': bad}


CONFIGS = {
    # name: (interpreter flags, environment, share of the runs)
    'python -O': (['-O'], {}, 8),
    'C locale': ([], {'LC_ALL': 'C', 'LANG': 'C', 'PYTHONUTF8': '0',
                      'PYTHONCOERCECLOCALE': '0',
                      'PYTHONIOENCODING': ''}, 16),
    'default-encoding warnings are errors': (
        ['-X', 'warn_default_encoding', '-W', 'error::EncodingWarning'], {},
        16),
}


def optimized_slice(prop, tier, runs, plan):
    """Configuration slices: part of the run is repeated in interpreters
    started differently - with -O (assert statements compiled out), in the C
    locale without UTF-8 mode, and with implicit default encodings turned into
    errors - all legitimate ways to run picotool, in which the properties
    must hold just the same."""
    if os.environ.get('PICOSIM_NO_OPT') or os.environ.get('PICOSIM_CONFIG'):
        return {'status': 'skipped'}
    out_all = {'status': 'ok', 'configurations': {}}
    for name, (flags, cenv, share) in CONFIGS.items():
        k = int(plan.get('opt_runs', max(1, runs // share)))
        env = dict(os.environ)
        env.update(cenv)
        env['PICOSIM_NO_DET'] = '1'
        env['PICOSIM_NO_OPT'] = '1'
        env['PICOSIM_RUNS'] = str(k)
        env['PICOSIM_CONFIG'] = name
        env['PICOSIM_EVIDENCE_DIR'] = os.path.join(
            core.scratch_base(), 'picosim-optev-%d' % os.getpid())
        t0 = time.time()
        try:
            p = subprocess.run(
                [sys.executable] + flags + [os.path.join(_HERE, 'main.py'),
                                            prop, '--tier', tier],
                env=env, stdout=subprocess.PIPE, stderr=subprocess.STDOUT,
                timeout=3600)
        except subprocess.TimeoutExpired:
            return {'status': 'harness-error', 'why': name + ': timed out'}
        finally:
            import shutil
            shutil.rmtree(env['PICOSIM_EVIDENCE_DIR'], ignore_errors=True)
        out = p.stdout.decode('utf-8', 'replace')
        res = {'runs_requested': k, 'wall_s': round(time.time() - t0, 1)}
        m = [ln for ln in out.splitlines() if ' runs in ' in ln]
        if m:
            res['summary'] = m[-1][:160]
        if p.returncode == core.EXIT_VIOLATION:
            for ln in out.splitlines():
                if ln.startswith(('VIOLATION ', 'KNOWN-FINDING', '  class:',
                                  '  what:')):
                    log(ln if not ln.startswith('  ')
                        else ln + '   [%s]' % name)
            res['status'] = 'violation'
            out_all['status'] = 'violation'
        elif p.returncode == core.EXIT_HELD:
            res['status'] = 'ok'
        else:
            return {'status': 'harness-error',
                    'why': name + ': ' + out[-1200:]}
        out_all['configurations'][name] = res
    return out_all


def digest_jobs(prop, tier, spec):
    seed = core.get_seed()
    engine_name, _ = registry.CHECKS[prop]
    engine = registry.load_engine(engine_name)
    plan = engine.plan(prop, tier)
    runs = int(os.environ.get('PICOSIM_RUNS', plan['runs']))
    if hasattr(engine, 'jobs'):
        jobs = engine.jobs(prop, tier, seed, runs)
    else:
        jobs = default_jobs(engine, prop, tier, seed, runs)
    out = {}
    for i in [int(x) for x in spec.split(',') if x]:
        res = run_job(engine, jobs[i])
        out[str(i)] = core.sha([r['digest'] for sc, r in res])
    print(json.dumps(out))
    return 0


# ---------------------------------------------------------------------------
# replay

def run_replay(prop, path):
    doc = core.read_replay(path)
    cfg = (doc.get('interpreter') or {}).get('config')
    if cfg and cfg in CONFIGS and os.environ.get('PICOSIM_CONFIG') != cfg:
        flags, cenv, _share = CONFIGS[cfg]
        log('picosim: this replay was recorded in the configuration %r; '
            're-running the interpreter that way' % cfg)
        sys.stdout.flush()
        env = dict(os.environ)
        env.update(cenv)
        env['PICOSIM_CONFIG'] = cfg
        os.execve(sys.executable, [sys.executable] + flags + sys.argv, env)
    engine_name, _ = registry.CHECKS[prop]
    engine = registry.load_engine(engine_name)
    sc = doc['scenario']
    want = doc.get('violation') or {}
    log('picosim: replaying %s (property %s, expected class %s)' % (
        path, prop, want.get('vclass')))
    r = core.isolated(engine.execute, sc)
    core.finish_result(r, keep_events=True)
    for e in r['events'][-60:]:
        log('  event: %s' % (core.dumps(e)[:300],))
    hit = [v for v in r['violations'] if v['property'] == prop and
           (not want or v['vclass'] == want.get('vclass'))]
    other = [v for v in r['violations'] if v not in hit]
    for v in other:
        log('  (other violation: %s %s)' % (v['property'], v['vclass']))
    if hit:
        v = hit[0]
        log('VIOLATION property=%s replay=%s' % (prop, path))
        log('  class: %s\n  what: %s' % (v['vclass'], v['detail']))
        return core.EXIT_VIOLATION
    log('picosim: replay did not violate %s (digest %s)' % (prop,
                                                             r['digest']))
    return core.EXIT_HELD


# ---------------------------------------------------------------------------

def main(argv):
    ap = argparse.ArgumentParser()
    ap.add_argument('target')
    ap.add_argument('--tier', default=os.environ.get('VERIF_TIER', 'quick'),
                    choices=['quick', 'thorough'])
    ap.add_argument('--replay')
    ap.add_argument('--runs', type=int)
    ap.add_argument('--digest-jobs')
    ap.add_argument('--aux', nargs='*')
    args, rest = ap.parse_known_args(argv)
    try:
        check_repo_import()
        if args.target.startswith('selftest'):
            from picosim import selftest
            return selftest.run(args.target, rest)
        if args.target not in registry.CHECKS:
            log('unknown property %s' % args.target)
            return core.EXIT_HARNESS
        if args.aux is not None:
            return registry.engine_for(args.target).aux(args.aux)
        if args.replay:
            return run_replay(args.target, args.replay)
        if args.digest_jobs is not None:
            return digest_jobs(args.target, args.tier, args.digest_jobs)
        return run_check(args.target, args.tier, args.runs)
    except core.HarnessError as e:
        log('HARNESS-ERROR: %s' % e)
        return core.EXIT_HARNESS
    except Exception:
        log('HARNESS-ERROR: unexpected exception\n' + traceback.format_exc())
        return core.EXIT_HARNESS


if __name__ == '__main__':
    code = main(sys.argv[1:])
    sys.stdout.flush()
    sys.exit(code)
