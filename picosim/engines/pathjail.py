"""Engine `pathjail` (C12, C20).

C12: the I/O history (audit-hook `open` events) of loading a cart with
`#include S` or building a program with `require("S")`, over seeded
file-system layouts with canary files outside every permitted root, seeded
environments (HOME, PICO8_LUA_PATH, cwd) and adversarial path strings, checked
against a path-jail model.

C20: `#include` over seeded file trees: which files are opened, where their
lines are spliced (reference splice model), tab selection, non-expansion of
nested includes, ENOENT on a target.
"""

import os

from picosim import core, refcodec, world

NAME = 'pathjail'
PROPS = ('C12', 'C20')

CARTS_DIRS = {
    'carts-linux': 'home/.lexaloffle/pico-8/carts',
    'carts-mac': 'home/Library/Application Support/pico-8/carts',
    'carts-win': 'home/AppData/Roaming/pico-8/carts',
}
CANARY_NAMES = ('canary.lua', 'init.lua', 'x.lua', 'canary', 'init',
                'canary.p8')


def _p8_with_code(code):
    return refcodec.encode_p8(refcodec.make_cart(version=33, code=code))


# ---------------------------------------------------------------------------
# the tree

def build_tree(w, sc):
    """Creates the layout; returns info dict.  Every file outside the
    permitted area carries a unique marker `canary_<n>`."""
    layout = sc['layout']
    canaries = {}      # rel path -> marker

    def canary_dir(rel):
        for nm in CANARY_NAMES:
            path = rel + '/' + nm if rel else nm
            if path in canaries:
                continue
            marker = 'canary_%d' % (len(canaries) + 1)
            body = ('%s=1\n' % marker).encode()
            if nm.endswith('.p8'):
                body = _p8_with_code(body)
            w.put(path, body)
            canaries[path] = marker

    def canary_file(rel):
        marker = 'canary_%d' % (len(canaries) + 1)
        w.put(rel, ('%s=1\n' % marker).encode())
        canaries[rel] = marker

    def inside_dir(rel, tag):
        w.put(rel + '/ok.lua', ('inside_%s_ok=1\n' % tag).encode())
        w.put(rel + '/init.lua', ('inside_%s_init=1\n' % tag).encode())
        w.put(rel + '/canary.lua', ('inside_%s_c=1\n' % tag).encode())
        w.put(rel + '/ok', ('inside_%s_okbare=1\n' % tag).encode())
        w.put(rel + '/sub/ok2.lua', ('inside_%s_ok2=1\n' % tag).encode())
        w.put(rel + '/sub/init.lua', ('inside_%s_subinit=1\n' % tag).encode())
        w.put(rel + '/sub/deep/ok3.lua', ('inside_%s_ok3=1\n' % tag).encode())
        w.put(rel + '/okcart.p8', _p8_with_code(
            ('inside_%s_cart=1\n' % tag).encode()))

    w.mkdir('home')
    for k, d in CARTS_DIRS.items():
        w.mkdir(d)
    if layout == 'proj':
        base = 'work/proj'
        root = base
        inside_dir(base, 'p')
    elif layout == 'proj-qmark':
        # a project directory with the load path's placeholder character (a
        # glob character too) in its name; siblings named as a substitution
        # of it would give
        base = 'work/proj?'
        root = base
        inside_dir(base, 'q')
        for nm in ('canary', 'init', 'x', 'ok', 'sub', 'lib1'):
            canary_dir('work/proj' + nm)
    elif layout in CARTS_DIRS:
        root = CARTS_DIRS[layout]
        base = root + '/game'
        inside_dir(root, 'c')
        w.put(base + '/ok.lua', b'inside_g_ok=1\n')
        w.put(base + '/sub/ok2.lua', b'inside_g_ok2=1\n')
    elif layout == 'cwd-carts':
        # a `pico-8/carts` tree below the working directory that is NOT the
        # user's carts folder (HOME is elsewhere)
        base = 'work/pico-8/carts/game'
        root = base
        inside_dir(base, 'w')
    elif layout == 'tilde-dir':
        # a directory whose name is literally "~" (cwd is its parent, the
        # cart is named "~/cart.p8" on the command line)
        base = 'home/~'
        root = base
        inside_dir(base, 't')
    elif layout == 'carts-lookalike':
        base = 'backup/' + CARTS_DIRS[sc['lookalike']][len('home/'):] + \
            '/game'
        root = base
        inside_dir(base, 'k')
    elif layout == 'carts-old':
        # a folder whose name merely extends the carts folder's name
        base = CARTS_DIRS['carts-linux'] + '-old'
        root = base
        inside_dir(base, 'o')
    else:
        raise core.HarnessError(layout)
    # a directory inside the base that is a symbolic link to a directory
    # elsewhere: `shared/..` is the base lexically, elsewhere/abs physically
    w.put('elsewhere/abs/linked/ok.lua', b'inside_linked_ok=1\n')
    if not os.path.lexists(w.p(base + '/shared')):
        os.symlink(w.p('elsewhere/abs/linked'), w.p(base + '/shared'))
    # canaries everywhere outside the root
    parent = os.path.dirname(root)
    canary_dir(parent)
    canary_dir(os.path.dirname(parent))
    canary_dir(root + 'x')                    # prefix-sharing sibling dir
    canary_dir(root + '-old' if layout != 'carts-old' else root + '2')
    up = os.path.dirname(root) + '/' + os.path.basename(root).upper()
    if up != root:
        canary_dir(up)                        # differs only by letter case
    canary_file(root + '.lua')                # prefix-sharing sibling file
    canary_file(root + 'x.lua')
    canary_dir(parent + '/cousin')
    canary_dir('elsewhere/abs')
    canary_dir('home')
    canary_dir('')
    if layout not in CARTS_DIRS:
        for d in CARTS_DIRS.values():
            canary_dir(d)
    else:
        for k, d in CARTS_DIRS.items():
            if k != layout:
                canary_dir(d)
        canary_dir('work/proj')
    if layout == 'carts-old':
        pass
    # load-path library dirs for require
    w.put('libs/sub/lib1.lua', b'inside_lib1=1\n')
    w.put('libs/sub/pkg/init.lua', b'inside_pkginit=1\n')
    w.put('libs/sub/lib1/lib1.lua', b'inside_lib11=1\n')
    canaries_libs = ['libs', 'libsx']
    for d in canaries_libs:
        canary_dir(d)
    canary_dir('libs/subx')
    canary_file('libs/sub.lua')
    aim_canaries = dict(canaries)     # (what seeded strings are aimed at)
    if sc.get('style') == 'drive':
        # directories named like a drive prefix (`c:` is an ordinary name on
        # this platform) in every directory a run may have as its working
        # directory, and one inside the base
        for d in ('', 'work', os.path.dirname(base)):
            for drv in ('c:', 'C:', 'd:'):
                canary_dir((d + '/' if d else '') + drv)
        w.put(base + '/c:/ok.lua', b'inside_drive_ok=1\n')
        w.put(base + '/c:/canary.lua', b'inside_drive_c=1\n')
    return {'base': base, 'root': root, 'canaries': canaries,
            'aim_canaries': aim_canaries}


# ---------------------------------------------------------------------------
# the permitted-roots model

def norm(path):
    path = os.path.normpath(path)
    if path.startswith('//'):
        # normpath keeps exactly two leading slashes (POSIX leaves their
        # meaning open); on this platform they name the same file as one
        path = '/' + path.lstrip('/')
    return path


def inside(path, root):
    """Component-wise containment of normalised absolute paths."""
    path, root = norm(path), norm(root)
    return path == root or path.startswith(root.rstrip('/') + '/')


def include_root(cart_abs, home_abs):
    for d in CARTS_DIRS.values():
        cand = norm(os.path.join(home_abs, d[len('home/'):]))
        if inside(cart_abs, cand):
            return cand
    return os.path.dirname(cart_abs)


def require_roots(file_abs, lua_path):
    base = os.path.dirname(file_abs)
    roots = [norm(base)]
    for entry in lua_path.split(';'):
        pre = entry.split('?')[0]
        d = pre[:pre.rfind('/') + 1]
        if entry.startswith('/'):
            roots.append(norm(d))
        else:
            roots.append(norm(os.path.join(base, d)))
    return roots


# ---------------------------------------------------------------------------
# C12 generation

INC_COMPONENTS = ['shared', 'linked',
                  'ok', 'sub', 'deep', 'canary', 'init', 'x', '.', '..', '..',
                  '..', '', 'cousin', 'game', 'carts', 'carts-old', 'cartsx',
                  'proj', 'projx', 'proj-old', 'home', 'elsewhere', 'abs',
                  'libs', 'libsx', 'work', 'okcart', '~', '~', '~root', 'PROJ',
                  'CARTS', 'lib1', 'pkg']


def _perturb(rng, path):
    parts = path.split('/')
    r = rng.random()
    if r < 0.15:
        i = rng.randrange(len(parts) + 1)
        parts[i:i] = ['.']
    elif r < 0.3:
        i = rng.randrange(len(parts) + 1)
        parts[i:i] = ['sub', '..']
    elif r < 0.4:
        i = rng.randrange(len(parts) + 1)
        parts[i:i] = ['']
    elif r < 0.47:
        i = rng.randrange(len(parts) + 1)
        parts[i:i] = ['nothere', '..']
    elif r < 0.5:
        i = rng.randrange(len(parts))
        parts[i:i] = ['shared', '..']       # through the symbolic link
    elif r < 0.55:
        parts = ['.'] + parts
    elif r < 0.6 and len(parts) > 1:
        parts.pop(rng.randrange(len(parts)))
    return '/'.join(parts)


def gen_c12(rng, tier, index):
    mode = rng.choice(['include', 'include', 'require', 'require'])
    layout = rng.choice(['proj', 'proj', 'carts-linux', 'carts-mac',
                         'carts-win', 'carts-old', 'tilde-dir',
                         'cwd-carts', 'proj-qmark']) \
        if mode == 'include' else rng.choice(['proj'] * 5 + ['proj-qmark'])
    sc = {'engine': NAME, 'mode': mode, 'layout': layout,
          'cwd': rng.choice(['root', 'base', 'parent']),
          'argstyle': rng.choice(['abs', 'rel']),
          'home': rng.choice(['home', 'home', 'unset', 'elsewhere'])}
    if layout == 'tilde-dir' and rng.random() < 0.7:
        sc.update(cwd='parent', argstyle='rel', home='home')
    if layout == 'cwd-carts':
        sc.update(cwd='work', home=rng.choice(['home', 'elsewhere']))
    # choose a target to aim at: a canary (mostly) or an inside file
    sc['aim'] = rng.random()
    sc['aim_index'] = rng.randrange(10**6)
    sc['style'] = rng.choice(['rel', 'rel', 'rel', 'abs', 'random', 'random',
                              'tilde', 'semi'])
    # how the require call is written: require("S") or the parenthesis-less
    # string-call forms
    sc['callform'] = rng.choice(['paren', 'paren', 'paren', 'paren', 'dq',
                                 'sq', 'long'])
    # an unrelated cart (in a cousin directory, same relative name) is loaded
    # first in the same process, from its own directory
    sc['warmup'] = rng.choice([False] * 7 + [True, True, 'failing'])
    if layout in CARTS_DIRS and sc['home'] != 'home' and rng.random() < 0.6:
        sc['warmup'] = 'carts-home-first'
    sc['perturb_seed'] = rng.randrange(10**9)
    if mode == 'include':
        sc['route'] = rng.choice(['from_file', 'from_file', 'from_file',
                                  'listlua', 'luamin', 'stats', 'listtokens',
                                  'printast', 'luafind', 'writep8', 'luafmt',
                                  'build-lua-cart', 'build-gfx-cart',
                                  'build-require-p8'])
        sc['tab'] = rng.choice([None, None, None, 0, 1])
        if sc['warmup'] is False and rng.random() < 0.15:
            # the very file the string aims at was read before, legitimately,
            # by a cart that lives next to it
            sc['warmup'] = 'owner-first'
    else:
        sc['route'] = 'build'
        sc['nest'] = rng.random() < 0.25
        how = rng.choice(['default', 'arg', 'arg', 'env', 'env+arg'])
        entries_pool = ['?', '?.lua', '?/init.lua', '?/?.lua', 'sub/?.lua',
                        'sub/?/init.lua', '$ROOT/libs/sub/?.lua',
                        '$ROOT/libs/sub/?/init.lua', '$ROOT/libs/sub/?/?.lua',
                        '../?.lua', '$ROOT/libs/sub/?',
                        '', 'sub/deep/?.lua', '?/x.lua', '?/canary',
                        '$ROOT/libs/sub/?/canary.lua']
        n = rng.choice([1, 2, 2, 3, 4])
        value = ';'.join(rng.choice(entries_pool) for _ in range(n))
        sc['lua_path'] = {'how': how, 'value': value,
                          'env_value': ';'.join(rng.choice(entries_pool)
                                                for _ in range(2))}
        sc['opts'] = rng.choice(['', '', ', {use_game_loop=true}'])
    # directory separators written as backslashes in part of the runs
    sc['backslash'] = rng.random() < 0.12
    sc['highbyte'] = rng.choice([0] * 9 + [128, 255, 200]) \
        if mode == 'require' else 0
    sc['S'] = None      # derived at execution time from the tree (see _derive)
    if rng.random() < 0.35:
        k = rng.choice([1, 1, 2, 2, 3, 4, 5, 6])
        comps = [rng.choice(INC_COMPONENTS) for _ in range(k)]
        s = '/'.join(comps)
        if rng.random() < 0.15:
            s = '/' + s
        if rng.random() < 0.1:
            s = s + '/'
        if rng.random() < 0.08:
            s = '$ROOT/' + s
        if rng.random() < 0.05:
            s = s.replace('/', rng.choice(['?', ';', '//']), 1)
        sc['S'] = s
    # round 8 (drawn last, so that earlier scenarios stay what they were)
    r8 = rng.random()
    if mode == 'require' and r8 < 0.10:
        # a load path on the command line AND another one in the environment:
        # only the former is in force, also for the packages of packages.  The
        # string names a library that only the environment's path reaches.
        sc['lua_path'] = {'how': 'env+arg',
                          'value': rng.choice(['?;?.lua', '?.lua;sub/?.lua',
                                               '?;?.lua;sub/deep/?.lua']),
                          'env_value': '$ROOT/libs/sub/?.lua;'
                                       '$ROOT/libs/sub/?/init.lua'}
        sc['nest'] = rng.random() < 0.7
        sc['S'] = rng.choice(['lib1', 'pkg', 'lib1/lib1', 'pkg/init'])
        sc['highbyte'] = 0
        sc['backslash'] = False
    elif r8 < 0.16:
        # names that look like a drive prefix
        sc['style'] = 'drive'
        sc['S'] = rng.choice(['c:/canary', 'C:/canary', 'c:\\canary',
                              'c:/init', 'd:/x', 'c:/ok', 'c:/canary.lua',
                              'C:\\x'])
        sc['backslash'] = False
        sc['highbyte'] = 0
    elif mode == 'include' and r8 < 0.22:
        # a directory tree that is merely *named* like a carts folder, outside
        # HOME (a backup, a synced copy): the cart's own directory is the root
        sc['layout'] = 'carts-lookalike'
        sc['lookalike'] = rng.choice(sorted(CARTS_DIRS))
        if sc['cwd'] == 'work':
            sc['cwd'] = 'root'
    return sc


def enumerated_c12(tier, seed):
    """Thorough: every string of <= 3 components over a reduced alphabet, for
    include (proj and carts-old layouts) and for require under the escaping
    and the default load paths."""
    if tier != 'thorough':
        return []
    alpha = ['ok', 'sub', 'canary', 'init', '.', '..', '', 'projx',
             'proj', 'carts', 'cousin']
    out = []
    import itertools
    for n in (1, 2, 3):
        for comps in itertools.product(alpha, repeat=n):
            s = '/'.join(comps)
            for lead in ('', '/'):
                for layout in ('proj', 'carts-old'):
                    out.append({'engine': NAME, 'mode': 'include',
                                'layout': layout, 'cwd': 'root',
                                'argstyle': 'abs', 'home': 'home',
                                'route': 'from_file', 'tab': None,
                                'S': lead + s, 'style': 'given',
                                'enumerated': True})
                for lp in ('?;?.lua', '?/init.lua;?/canary',
                           '$ROOT/libs/sub/?/init.lua;$ROOT/libs/sub/?.lua'):
                    out.append({'engine': NAME, 'mode': 'require',
                                'layout': 'proj', 'cwd': 'root',
                                'argstyle': 'abs', 'home': 'home',
                                'route': 'build', 'nest': False,
                                'lua_path': {'how': 'arg', 'value': lp,
                                             'env_value': ''},
                                'opts': '', 'S': lead + s, 'style': 'given',
                                'enumerated': True})
    return out


def _derive_S(sc, w, info):
    """When the scenario leaves S open, aim at a concrete file of the tree
    (so that the string is meaningful for this layout) and perturb it."""
    if sc.get('S') is not None:
        return sc['S']
    rng = core.derive_rng(sc['perturb_seed'], 'S', 0)
    base = info['base']
    if sc['mode'] == 'require' and sc.get('nest'):
        base = base + '/sub'
    targets = sorted(info.get('aim_canaries') or info['canaries'])
    if sc.get('warmup') and sc['mode'] == 'require' and sc['aim'] < 0.5:
        # what the warm-up build's load path (not ours) would resolve
        return ['lib1', 'pkg', 'lib1/lib1', 'pkg/init'][
            sc['aim_index'] % 4]
    if sc['aim'] < 0.8:
        tgt = targets[sc['aim_index'] % len(targets)]
    else:
        ins = [base + '/ok.lua', base + '/sub/ok2.lua',
               info['root'] + '/ok.lua', base + '/okcart.p8',
               base + '/canary.lua', base + '/init.lua',
               base + '/shared/ok.lua']
        tgt = ins[sc['aim_index'] % len(ins)]
    if sc['style'] == 'abs':
        s = '$ROOT/' + tgt
    elif sc['style'] == 'semi':
        # a load-path separator inside the cart-controlled string
        tail = '$ROOT/' + tgt if rng.random() < 0.7 else os.path.relpath(
            w.p(tgt), w.p(base))
        if rng.random() < 0.4 and '.' in os.path.basename(tail):
            tail = tail[:tail.rfind('.')]
        return rng.choice(['nothing', 'ok', '']) + ';' + tail
    elif sc['style'] == 'tilde':
        # home-relative spelling of an absolute path
        home = os.environ.get('HOME') or w.p('home')
        s = '~/' + os.path.relpath(w.p(tgt), home)
        if sc['mode'] == 'require' and s.endswith('.lua') and \
                rng.random() < 0.6:
            s = s[:-4]
        return s if rng.random() < 0.7 else _perturb(rng, s)
    else:
        s = os.path.relpath(w.p(tgt), w.p(base))
    if sc['mode'] == 'require' and sc['style'] == 'abs':
        # an absolute string survives the join with the requiring file's
        # directory only under an entry that starts with the placeholder
        lp = _effective_lua_path(sc)
        entries = [e for e in lp.split(';') if e.startswith('?')] or ['?']
        suf = entries[sc['aim_index'] % len(entries)][1:]
        full = '$ROOT/' + tgt
        if suf and '?' not in suf and full.endswith(suf):
            full = full[:-len(suf)]
        elif '.' in os.path.basename(full) and rng.random() < 0.5:
            full = full[:full.rfind('.')]
        return full if rng.random() < 0.8 else _perturb(rng, full)
    if sc['mode'] == 'require':
        # aim so that some load-path entry expands to the target: strip the
        # suffix that follows the last `?` of a seeded entry
        lp = _effective_lua_path(sc)
        entries = [e for e in lp.split(';') if '?' in e]
        if entries:
            e = entries[sc['aim_index'] % len(entries)]
            pre, suf = e.split('?')[0], e.split('?')[-1]
            pre_dir = w.subst(pre)
            start = pre_dir if pre_dir.startswith('/') else \
                os.path.join(w.p(base), pre_dir)
            full = w.p(tgt)
            if suf and full.endswith(suf):
                full = full[:-len(suf)]
            elif '.' in os.path.basename(full) and rng.random() < 0.7:
                full = full[:full.rfind('.')]
            if pre.endswith('/') or pre == '':
                s = os.path.relpath(full, start or '/')
            else:
                s = os.path.relpath(full, os.path.dirname(start) or '/')
        elif s.endswith('.lua') and rng.random() < 0.7:
            s = s[:-4]
    if sc['style'] != 'abs' or rng.random() < 0.3:
        s = _perturb(rng, s)
    return s


def _effective_lua_path(sc):
    lp = sc.get('lua_path') or {'how': 'default'}
    how = lp['how']
    if how in ('arg', 'env+arg'):
        return lp['value']
    if how == 'env':
        return lp['value']
    return '?;?.lua'


# ---------------------------------------------------------------------------
# C12 execution

def execute(sc):
    if sc['mode'] == 'splice':
        return execute_splice(sc)
    from pico8 import tool
    from pico8.game import file as pfile
    res = core.new_result()
    ev = res['events']
    env = {}
    if sc['home'] == 'home':
        env['HOME'] = '$ROOT/home'
    elif sc['home'] == 'elsewhere':
        env['HOME'] = '$ROOT/elsewhere'
    elif sc['home'] == 'unset':
        env['HOME'] = None
    lp = sc.get('lua_path') or {'how': 'default'}
    if lp['how'] == 'env':
        env['PICO8_LUA_PATH'] = lp['value']
    elif lp['how'] == 'env+arg':
        env['PICO8_LUA_PATH'] = lp['env_value']
    with world.World(env={k: v for k, v in env.items()}) as w:
        if env.get('HOME', 1) is None:
            os.environ.pop('HOME', None)
        info = build_tree(w, sc)
        base = info['base']
        S = _derive_S(sc, w, info)
        if sc.get('backslash') and not S.startswith('$ROOT'):
            S = S.replace('/', '\\')
        S_real = w.subst(S)
        home_abs = w.p('home')
        operands = set()
        if sc['mode'] == 'include':
            text = '#include %s' % S_real
            ext_ok = S_real.endswith(('.lua', '.p8', '.p8.png'))
            if not ext_ok:
                text += '.lua'
                S_real += '.lua'
            if sc.get('tab') is not None:
                text += ':%d' % sc['tab']
            code = ('before_marker=1\n%s\nafter_marker=1\n' % text).encode()
            cart_rel = base + '/cart.p8'
            w.put(cart_rel, _p8_with_code(code))
            main_abs = w.p(cart_rel)
            # the include root depends on where HOME points
            eff_home = os.environ.get('HOME')
            if eff_home is None:
                roots = [os.path.dirname(main_abs)]
            else:
                roots = [include_root(main_abs, eff_home)]
        else:
            cf = sc.get('callform', 'paren')
            esc = S_real.replace('\\', '\\\\')
            if sc.get('highbyte'):
                # a byte >= 0x80 (decimal escape) in front of the name
                esc = '\\%d' % sc['highbyte'] + esc
            if cf == 'paren' or sc.get('opts'):
                req = 'require("%s"%s)' % (esc.replace('"', '\\"'),
                                           sc.get('opts', ''))
            elif cf == 'dq':
                req = 'require "%s"' % esc.replace('"', '\\"')
            elif cf == 'sq':
                req = "require '%s'" % esc.replace("'", "\\'")
            else:
                req = 'require [[%s]]' % S_real.replace(']]', '] ]')
            if sc.get('nest'):
                w.put(base + '/main.lua', b'main_marker=1\nrequire("sub/pkg")\n')
                w.put(base + '/sub/pkg.lua',
                      ('pkg_marker=1\n%s\n' % req).encode())
            else:
                w.put(base + '/main.lua',
                      ('main_marker=1\n%s\n' % req).encode())
            main_abs = w.p(base + '/main.lua')
            eff_lp = w.subst(_effective_lua_path(sc))
            roots = require_roots(main_abs, eff_lp)
        cwd_rel = {'root': '', 'base': base, 'work': 'work',
                   'parent': os.path.dirname(base)}[sc['cwd']]
        os.chdir(w.p(cwd_rel))
        arg = main_abs if sc['argstyle'] == 'abs' else os.path.relpath(
            main_abs, w.p(cwd_rel))
        operands.add(norm(main_abs))
        out_abs = w.p('out/out.p8')
        w.mkdir('out')
        operands.add(norm(out_abs))
        operands.add(norm(w.p(base + '/cart_fmt.p8')))
        operands.add(norm(w.p(base + '/main_req.lua')))
        if sc.get('warmup'):
            cousin = os.path.dirname(info['root']) + '/cousin'
            try:
                if sc['mode'] == 'include' and \
                        sc.get('warmup') == 'carts-home-first':
                    # earlier in this process HOME pointed at home/ and a cart
                    # in its carts folder was loaded; HOME is different now
                    saved_home = os.environ.get('HOME')
                    os.environ['HOME'] = w.p('home')
                    for cd in CARTS_DIRS.values():
                        w.put(cd + '/warm.p8', _p8_with_code(
                            b'warm_marker=1\n#include ok.lua\n'))
                        w.put(cd + '/ok.lua', b'warm_ok=1\n')
                        try:
                            pfile.from_file(w.p(cd + '/warm.p8'))
                        except BaseException:
                            pass
                    if saved_home is None:
                        os.environ.pop('HOME', None)
                    else:
                        os.environ['HOME'] = saved_home
                    core.bump(res['probes'], 'warmup-under-another-home')
                elif sc['mode'] == 'include' and \
                        sc.get('warmup') == 'owner-first':
                    tgt = norm(os.path.join(os.path.dirname(main_abs),
                                            S_real))
                    if os.path.isfile(tgt) and not any(
                            c.isspace() for c in os.path.basename(tgt)):
                        owner = os.path.join(os.path.dirname(tgt),
                                             'owner_warm.p8')
                        inc = '#include ' + os.path.basename(tgt)
                        if sc.get('tab') is not None:
                            inc += ':%d' % sc['tab']
                        with open(owner, 'wb') as fh:
                            fh.write(_p8_with_code(
                                ('owner_marker=1\n%s\n' % inc).encode()))
                        try:
                            pfile.from_file(owner)
                            core.bump(res['probes'],
                                      'warmup-target-read-by-its-owner')
                        except BaseException:
                            pass
                elif sc['mode'] == 'include' and sc.get('warmup') == 'failing':
                    # a cart one level up fails to load half-way through
                    par = os.path.dirname(info['base'])
                    w.put(par + '/bad.p8', _p8_with_code(
                        b'ok_line=1\n#include init.lua\nx=1\n`\ny=2\n'))
                    try:
                        pfile.from_file(w.p(par + '/bad.p8'))
                    except BaseException:
                        core.bump(res['probes'], 'warmup-load-failed-midway')
                elif sc['mode'] == 'include':
                    w.put(cousin + '/cart.p8', _p8_with_code(
                        b'warm_marker=1\n#include init.lua\n'))
                    os.chdir(w.p(cousin))
                    pfile.from_file('cart.p8')
                else:
                    # (one package found next to the program, one through
                    # a load-path entry that names a directory)
                    w.put(cousin + '/main.lua',
                          b'warm_marker=1\nrequire("init")\n'
                          b'require("lib1")\nrequire("pkg")\n')
                    os.chdir(w.p(cousin))
                    tool.main(['build', w.p('out/warm.p8'), '--lua',
                               'main.lua', '--lua-path',
                               '?;?.lua;%s/?.lua;%s/?/init.lua' % (
                                   w.p('libs/sub'), w.p('libs/sub'))])
                core.bump(res['probes'], 'warmup-load-elsewhere-first')
            except BaseException:
                core.bump(res['probes'], 'warmup-load-failed')
            os.chdir(w.p(cwd_rel))
            w.out.seek(0)
            w.out.truncate(0)
        exc = None
        rc = None
        result_code = b''
        w.start_io_log()
        try:
            if sc['route'] == 'from_file':
                g = pfile.from_file(arg)
                result_code = b''.join(g.lua.to_lines())
            elif sc['route'] == 'listlua':
                rc = tool.main(['listlua', arg])
                result_code = w.out.getvalue().encode('latin-1', 'replace')
            elif sc['route'] in ('luamin', 'writep8', 'luafmt'):
                rc = tool.main({'luamin': ['luamin', '--keep-all-names'],
                                'writep8': ['writep8'],
                                'luafmt': ['luafmt']}[sc['route']] + [arg])
                p = w.p(base + '/cart_fmt.p8')
                if os.path.exists(p):
                    with open(p, 'rb') as fh:
                        result_code = fh.read()
            elif sc['route'] in ('stats', 'listtokens', 'printast',
                                 'luafind'):
                argv = [sc['route']] + (['marker'] if sc['route'] == 'luafind'
                                        else []) + [arg]
                rc = tool.main(argv)
                result_code = w.out.getvalue().encode('latin-1', 'replace')
            elif sc['route'] == 'build-require-p8':
                # the cart is a library that a program requires (load path
                # with a cart extension, or the name spelled in full)
                full = sc['aim_index'] % 2 == 0
                w.put(base + '/main_req.lua', (
                    'main_marker=1\nrequire("%s")\n' % (
                        'cart.p8' if full else 'cart')).encode())
                rc = tool.main(['build', out_abs, '--lua',
                                os.path.join(os.path.dirname(arg),
                                             'main_req.lua')] + (
                    [] if full else ['--lua-path', '?;?.lua;?.p8']))
                if os.path.exists(out_abs):
                    with open(out_abs, 'rb') as fh:
                        result_code = fh.read()
            elif sc['route'] in ('build-lua-cart', 'build-gfx-cart'):
                rc = tool.main(['build', out_abs, '--lua' if sc['route'] ==
                                'build-lua-cart' else '--gfx', arg])
                if os.path.exists(out_abs):
                    with open(out_abs, 'rb') as fh:
                        result_code = fh.read()
            else:
                argv = ['build', out_abs, '--lua', arg]
                if lp['how'] in ('arg', 'env+arg'):
                    argv += ['--lua-path', w.subst(lp['value'])]
                rc = tool.main(argv)
                if os.path.exists(out_abs):
                    with open(out_abs, 'rb') as fh:
                        result_code = fh.read()
        except BaseException as e:
            exc = e
        opens = w.stop_io_log()
        failed = exc is not None or rc not in (0, None)
        core.bump(res['ops'], sc['mode'] + ':' + sc['route'])

        # the jail: every open under $ROOT must be an operand or inside a root
        permitted = list(roots)
        outside = []
        n_inside = 0
        for rel, mode in opens:
            full = norm(w.p(rel[len('$ROOT'):].lstrip('/')))
            if full in operands:
                continue
            if any(inside(full, r) for r in permitted):
                n_inside += 1
                if sc['mode'] == 'require':
                    # a legitimately loaded package may require relative to
                    # its own directory
                    for r in require_roots(full, eff_lp):
                        if r not in permitted:
                            permitted.append(r)
                continue
            outside.append((rel, mode))
        if outside:
            # a file may be opened under another name than the one that was
            # checked (its resolved path, say): what counts is which file it
            # is.  Files reachable inside the permitted roots, following
            # links, are collected by identity.
            ids = set()
            for r in permitted:
                seen_dirs = set()
                for dp, dns, fns in os.walk(r, followlinks=True):
                    try:
                        st = os.stat(dp)
                    except OSError:
                        continue
                    if (st.st_dev, st.st_ino) in seen_dirs:
                        dns[:] = []
                        continue
                    seen_dirs.add((st.st_dev, st.st_ino))
                    for fn in fns:
                        try:
                            st = os.stat(os.path.join(dp, fn))
                            ids.add((st.st_dev, st.st_ino))
                        except OSError:
                            pass
            still = []
            for rel, mode in outside:
                try:
                    st = os.stat(w.p(rel[len('$ROOT'):].lstrip('/')))
                    if (st.st_dev, st.st_ino) in ids and 'r' in mode:
                        core.bump(res['probes'],
                                  'inside-file-opened-under-another-name')
                        continue
                except OSError:
                    pass
                still.append((rel, mode))
            outside = still
        # a canary that the user's own load path makes reachable (e.g. an
        # entry `../?.lua`) is not a leak
        leaked = sorted(m for rel, m in info['canaries'].items()
                        if (m + '=').encode() in result_code and
                        not any(inside(w.p(rel), r) for r in permitted))
        # classify where the string points, for signatures and reach
        where = _classify(sc, S)
        if outside:
            core.violation(
                res, 'C12', 'C12:outside-open',
                'C12|%s|%s|opened outside roots' % (sc['mode'], where),
                '%s of `%s` (layout %s, cwd %s, HOME %s%s): opened %s, which '
                'is outside the permitted roots %s' % (
                    sc['route'], S, sc['layout'], sc['cwd'], sc['home'],
                    ', load path %r via %s' % (
                        _effective_lua_path(sc), lp['how'])
                    if sc['mode'] == 'require' else '',
                    [o[0] for o in outside],
                    [w.unsubst(r) for r in roots]))
        elif leaked:
            core.violation(
                res, 'C12', 'C12:canary-leaked',
                'C12|%s|%s|canary content in result' % (sc['mode'], where),
                '%s of `%s`: result contains %s' % (sc['route'], S, leaked))
        # "rejected with an error": a string that resolves outside every root
        # must make the operation fail
        if not res['violations'] and not failed:
            target_abs = _resolved_target(sc, S_real, main_abs, base, w)
            if target_abs is not None and not any(
                    inside(target_abs, r) for r in roots) and \
                    sc['mode'] == 'include' and \
                    not any(c.isspace() for c in S_real):
                core.violation(
                    res, 'C12', 'C12:escape-not-rejected',
                    'C12|%s|%s|escaping string accepted' % (
                        sc['mode'], where),
                    '%s of `%s` resolves to %s outside %s but the load '
                    'succeeded' % (sc['route'], S, w.unsubst(target_abs),
                                   [w.unsubst(r) for r in roots]))
        if n_inside:
            core.bump(res['probes'], 'opened-inside-root')
        if sc.get('style') == 'drive':
            core.bump(res['probes'], 'drive-prefix-name')
        if sc['layout'] == 'carts-lookalike':
            core.bump(res['probes'], 'tree-merely-named-like-a-carts-folder')
        if lp['how'] == 'env+arg' and sc.get('S') in (
                'lib1', 'pkg', 'lib1/lib1', 'pkg/init'):
            core.bump(res['probes'], 'aimed-at-the-environment-path-not-in-force')
        if failed:
            core.bump(res['probes'], 'rejected-or-failed')
            core.bump(res['faults'], 'REJECTED')
        if sc['layout'] in CARTS_DIRS and n_inside:
            core.bump(res['probes'], 'carts-folder-root-used')
        if sc.get('nest') and n_inside >= 1:
            core.bump(res['probes'], 'nested-require-resolved')
        outcome = ('outside-open' if outside else 'leak' if leaked else
                   'failed' if failed else 'loaded')
        res['states'].append('%s|%s|%s|%s|%s|%s' % (
            sc['mode'], sc['layout'], sc['route'], where,
            (sc.get('lua_path') or {}).get('how', '-'), outcome))
        res['nontrivial'] = bool(n_inside or failed or outside)
        ev.append((sc['mode'], sc['layout'], sc['route'], S, outcome,
                   world.describe_exc(exc, w) if exc else rc,
                   [tuple(o) for o in opens]))
    return res


def _resolved_target(sc, S_real, main_abs, base, w):
    if sc['mode'] != 'include':
        return None
    return norm(os.path.join(os.path.dirname(main_abs), S_real))


def _classify(sc, S):
    tags = []
    if S.startswith('/') or S.startswith('$ROOT'):
        tags.append('abs')
    parts = S.split('/')
    if '..' in parts:
        tags.append('dotdot')
    if '.' in parts:
        tags.append('dot')
    if '' in parts[1:-1]:
        tags.append('dslash')
    if any(p.endswith(('x', '-old')) or p.startswith(('projx', 'cartsx'))
           for p in parts):
        tags.append('prefix-sibling')
    if '?' in S or ';' in S:
        tags.append('meta')
    return '+'.join(tags) or 'plain'


# ---------------------------------------------------------------------------
# C20: the splice workload

def gen_c20(rng, tier, index):
    ntargets = rng.choice([0, 1, 1, 2, 3, 4])
    targets = []
    uid = [0]

    def mk_lines(tag, n):
        out = []
        for _ in range(n):
            uid[0] += 1
            out.append('%s_%d=%d' % (tag, uid[0], uid[0]))
        return out

    for t in range(ntargets):
        kind = rng.choice(['lua', 'lua', 'p8', 'png'])
        d = rng.choice(['', '', 'sub/', 'sub/deep/'])
        name = '%sinc%d.%s' % (d, t, {'lua': 'lua', 'p8': 'p8',
                                        'png': 'p8.png'}[kind])
        if rng.random() < 0.2:
            # names in which an extension-like part occurs before the real
            # extension, or in a directory component
            name = {'lua': rng.choice(['%sx%d.p8.lua', '%sa%d.p8.png.lua',
                                       '%smods%d.lua.d/inc.lua',
                                       '%sv1.2/inc%d.lua',
                                       '%srows[%d].lua', '%sgame[v%d]/inc.lua',
                                       '%sall*%d.lua', '%swhat?%d.lua']),
                    'p8': rng.choice(['%stools%d.lua.p8', '%slib%d.p8.p8',
                                      '%sc%d.lua.d/cart.p8',
                                      '%sset[%d].p8']),
                    'png': rng.choice(['%st%d.lua.p8.png',
                                       '%su%d.p8.d/c.p8.png',
                                       '%spics[%d].p8.png'])}[kind] % (d, t)
        tg = {'kind': kind, 'rel': name}
        if kind == 'lua' and rng.random() < 0.12:
            # a file that only makes sense in its context: it opens something
            # that the including cart closes on the line after the include
            style = rng.choice(['function', 'comment', 'table', 'longstring'])
            uid[0] += 1
            opener = {'function': 'function frag_%d()',
                      'comment': '--[[ opened in the file %d',
                      'table': 'frag_%d={',
                      'longstring': 'frag_%d=[[ text'}[style] % uid[0]
            body = {'function': ['fr_%d=%d'], 'comment': ['not lexable ` %d %d'],
                    'table': [' %d, %d,'], 'longstring': [' more %d %d']}[style]
            tg['lines'] = [opener] + [body[0] % (uid[0], uid[0])]
            tg['final_newline'] = True
            tg['fragment'] = {'function': 'end', 'comment': ']]',
                              'table': '}', 'longstring': ']]'}[style]
        elif kind == 'lua':
            tg['lines'] = mk_lines('t%d' % t, rng.choice([0, 1, 2, 3]))
            tg['final_newline'] = rng.random() < 0.7
            if rng.random() < 0.2:
                tg['lines'].insert(rng.randint(0, len(tg['lines'])),
                                   '#include nested_%d.lua' % t)
                tg['nested'] = rng.choice(['missing', 'exists', 'canary'])
        else:
            ntabs = rng.choice([1, 1, 2, 3, 4, 5])
            tg['version'] = rng.choice([33, 33, 33, 8, 5, 4, 9, 16, 41, 1])
            tg['tabs'] = [mk_lines('t%dtab%d' % (t, k),
                                   rng.choice([0, 1, 2, 3]))
                          for k in range(ntabs)]
            if rng.random() < 0.3:
                k = rng.randrange(ntabs)
                tg['tabs'][k].insert(
                    rng.randint(0, len(tg['tabs'][k])),
                    '#include nested_%d.lua' % t)
                tg['nested'] = rng.choice(['missing', 'exists', 'canary'])
        targets.append(tg)
    if rng.random() < 0.12:
        # the cart names itself (included carts are not expanded, so this is
        # no cycle: its own code, or one of its tabs, is spliced in as written)
        targets.append({'kind': 'self', 'rel': 'cart.p8'})
    nlines = rng.choice([0, 1, 2, 3, 5])
    lines = [{'t': 'code', 'text': x} for x in mk_lines('c', nlines)]
    if rng.random() < 0.2:
        # lines that merely look like the start or end of a block comment
        # (each is a complete statement or comment of its own)
        for _ in range(rng.choice([1, 1, 2])):
            uid[0] += 1
            lines.insert(rng.randint(0, len(lines)), {
                't': 'code', 'text': rng.choice([
                    'q_%d="--[["', '-- note %d --[[ not a block comment',
                    'q_%d="]]"', 'q_%d=[==[--[[]==]',
                    '--[[ one line %d ]]', 'q_%d=q--[[ inline ]]']) % uid[0]})
    if targets and targets[-1]['kind'] == 'self':
        for _ in range(rng.choice([0, 1, 2])):
            lines.insert(rng.randint(0, len(lines)),
                         {'t': 'code', 'text': '-->8'})
    ninc = rng.choice([0, 1, 1, 2, 3, 4]) if targets else 0
    for _ in range(ninc):
        ti = rng.randrange(len(targets))
        tg = targets[ti]
        tab = None
        if tg['kind'] == 'self':
            tab = rng.choice([None, 0, 1, 1, 2, 3])
        elif tg['kind'] != 'lua' and rng.random() < 0.6:
            tab = rng.randint(0, len(tg['tabs']) + 1)
        inc = {'t': 'inc', 'target': ti, 'tab': tab,
               'indent': rng.choice(['', '', ' ', '\t', '  ']),
               'gap': rng.choice([' ', ' ', '  ', '\t']),
               'dot': rng.random() < 0.15}
        pos = rng.choice([0, len(lines), rng.randint(0, len(lines))])
        if tg.get('fragment'):
            uid[0] += 1
            inc = {'t': 'seq', 'inner': [inc, {
                't': 'code', 'text': tg['fragment'] + ' -- closes %d' % uid[0]
                if tg['fragment'] != ']]' else ']]'}]}
        lines.insert(pos, inc)
    sc = {'engine': NAME, 'mode': 'splice', 'targets': targets,
          'lines': lines,
          'cwd': rng.choice(['root', 'base', 'parent'] * 4 + ['deleted']),
          'argstyle': rng.choice(['abs', 'rel']),
          'route': rng.choice(['from_file', 'from_file', 'listlua',
                               'build-out', 'listlua-2files']),
          'gflags': rng.choice([[], [], [], ['--debug'], ['-q']]),
          'debug_left_on': rng.random() < 0.1,
          'enoent': None}
    incs = [i for i, ln in enumerate(lines) if ln['t'] == 'inc']
    if incs and rng.random() < 0.2:
        t_ = lines[rng.choice(incs)]['target']
        if targets[t_]['kind'] != 'self':
            sc['enoent'] = t_
            # next to the missing target: a file whose name differs only by
            # letter case (file names here are case sensitive)
            sc['enoent_decoy'] = rng.choice([None, 'case', 'case'])
    if incs and rng.random() < 0.2:
        sc['prelude'] = rng.choice(['corrupt-header', 'lex-error',
                                    'parse-error', 'relative-elsewhere',
                                    'relative-elsewhere'])
        if sc['prelude'] == 'relative-elsewhere':
            sc['cwd'] = 'base'
            sc['argstyle'] = 'rel'
    if rng.random() < 0.2:
        sc['layout'] = 'carts-sub'
    if rng.random() < 0.15:
        sc['via_symlink'] = True
    if sc['enoent'] is None and incs and rng.random() < 0.3:
        # a second load after every target was rewritten in place
        t2 = []
        for t, tg in enumerate(targets):
            n = dict(tg)
            if tg['kind'] == 'self' or tg.get('fragment'):
                pass
            elif tg['kind'] == 'lua':
                n['lines'] = mk_lines('u%d' % t, rng.choice([0, 1, 2, 3]))
                n['final_newline'] = True
            else:
                keep = len(tg['tabs']) if rng.random() < 0.6 else \
                    rng.choice([1, 2, 3, 4, 5])
                n['tabs'] = [mk_lines('u%dtab%d' % (t, k),
                                      rng.choice([0, 1, 2]))
                             for k in range(keep)]
            n.pop('nested', None)
            t2.append(n)
        sc['second'] = {'targets': t2}
        if rng.random() < 0.35:
            # ... rewritten with contents of the same length, and with the
            # files' previous timestamps restored: (mtime, size) do not tell
            # the two versions apart
            t3 = []
            for tg in targets:
                n = dict(tg)
                if tg.get('fragment'):
                    pass
                elif tg['kind'] == 'lua':
                    n['lines'] = [('#' + x[1:]) if x.startswith('#')
                                  else 'v' + x[1:] for x in tg['lines']]
                elif tg['kind'] != 'self':
                    n['tabs'] = [['v' + x[1:] if not x.startswith('#')
                                  else x for x in tab] for tab in tg['tabs']]
                t3.append(n)
            sc['second'] = {'targets': t3, 'keep_times': True}
        if rng.random() < 0.3:
            l2 = [dict(ln) for ln in lines]
            for ln in l2:
                if ln['t'] == 'inc' and \
                        targets[ln['target']]['kind'] != 'lua':
                    ln['tab'] = rng.choice([None, 0, 1, 2])
            sc['second']['lines'] = l2
    if len(lines) >= 1 and rng.random() < 0.15 and not any(
            tg['kind'] == 'self' or tg.get('fragment') for tg in targets):
        # a stretch of the cart's lines (include lines too) sits inside a
        # block comment: the splice is textual, the lines arrive all the same
        i = rng.randint(0, len(lines) - 1)
        j = rng.randint(i, len(lines) - 1)
        if not any(ln['t'] == 'code' and ln['text'] == '-->8'
                   for ln in lines[i:j + 1]):
            uid[0] += 1
            lvl = rng.choice(['', '', '='])
            if any(ln['t'] == 'code' and ']]' in ln['text'] for ln in lines):
                lvl = '='       # (a `]]` inside would end a level-0 comment)
            for holder in [sc] + ([sc['second']] if 'lines' in sc.get(
                    'second', {}) else []):
                ls = holder['lines']
                holder['lines'] = ls[:i] + [{
                    't': 'cblock', 'id': uid[0], 'level': lvl,
                    'inner': ls[i:j + 1]}] + ls[j + 1:]
    # round 8 (drawn last, so that earlier scenarios stay what they were)
    r8 = rng.random()
    carts = [tg for tg in targets if tg.get('tabs') is not None]
    luas = [tg for tg in targets if tg['kind'] == 'lua' and
            not tg.get('fragment')]
    if r8 < 0.10 and carts and 'second' not in sc:
        # an included cart whose code has a line that reads `-->8` inside a
        # multi-line string or comment: that is text, not a tab separator
        tg = rng.choice(carts)
        tab = rng.choice(tg['tabs'])
        uid[0] += 1
        tab[rng.randint(0, len(tab)):0] = rng.choice([
            ['ms_%d=[[' % uid[0], '-->8', ' text ]]'],
            ['--[[ note %d' % uid[0], '-->8', 'end of the note ]]'],
            ['ms_%d=[==[' % uid[0], '-->8', '-->8', ']==]']])
        sc['fake_tab_separator'] = True
    elif r8 < 0.13 and luas and 'second' not in sc:
        # an include file larger than 64 KiB, made of short lines whose
        # length does not divide a power of two
        tg = rng.choice(luas)
        uid[0] += 1
        # (a first line of varying length moves the 64 KiB marks across the
        # escapes of the strings that follow)
        tg['lines'] = ['p' * rng.randint(1, 13) + '=1'] + \
            ['b="\\n\\n\\n\\n"'] * rng.choice([5100, 5200, 10200]) + \
            ['big_%d=1' % uid[0]]
        tg['final_newline'] = True
        tg.pop('nested', None)
        sc['big_include'] = True
    elif r8 < 0.19 and (luas or carts):
        # a backslash is an ordinary character of a file name here
        tg = rng.choice(luas + carts)
        d, nm = os.path.split(tg['rel'])
        tg['rel'] = (d + '/' if d else '') + rng.choice(
            ['lib\\', 'a\\b\\', '\\']) + nm
    return sc


def _flat_lines(lines):
    """Block-comment brackets written out as the two code lines they are."""
    out = []
    for ln in lines:
        if ln['t'] == 'seq':
            out.extend(_flat_lines(ln['inner']))
        elif ln['t'] == 'cblock':
            out.append({'t': 'code', 'text': '--[%s[ commented out %d' % (
                ln.get('level', ''), ln['id'])})
            out.extend(_flat_lines(ln['inner']))
            out.append({'t': 'code', 'text': 'end_of_comment_%d ]%s]' % (
                ln['id'], ln.get('level', ''))})
        else:
            out.append(ln)
    return out


def _cart_text_lines(sc):
    """The cart's own code lines as they are written to the file."""
    text_lines = []
    for ln in sc['lines']:
        if ln['t'] == 'code':
            text_lines.append(ln['text'])
        else:
            tg = sc['targets'][ln['target']]
            name = ('./' if ln.get('dot') else '') + tg['rel']
            text_lines.append('%s#include%s%s%s' % (
                ln['indent'], ln['gap'], name,
                '' if ln['tab'] is None else ':%d' % ln['tab']))
    return text_lines


def _target_code(tg):
    if tg['kind'] == 'lua':
        body = '\n'.join(tg['lines'])
        if tg['lines'] and tg['final_newline']:
            body += '\n'
        return body.encode()
    parts = []
    for k, tab in enumerate(tg['tabs']):
        if k:
            parts.append('-->8')
        parts.extend(tab)
    return ('\n'.join(parts) + '\n').encode() if parts else b''


def _splice_model(sc):
    """-> list of acceptable results, each a list of non-empty lines.  When an
    included .lua file lacks a final newline the statement does not say
    whether a newline must be supplied before what follows; both readings
    are accepted at every such position."""
    pieces = []          # (text, newline) with newline in (True, 'optional')
    for ln in sc['lines']:
        if ln['t'] == 'code':
            pieces.append((ln['text'], True))
            continue
        tg = sc['targets'][ln['target']]
        if tg['kind'] == 'self':
            raw = _cart_text_lines(sc)
            if ln['tab'] is None:
                inc = raw
            else:
                tabs = [[]]
                for x in raw:
                    if x.startswith('-->8'):
                        tabs.append([])
                    else:
                        tabs[-1].append(x)
                inc = tabs[ln['tab']] if ln['tab'] < len(tabs) else []
            pieces.extend((x, True) for x in inc)
        elif tg['kind'] == 'lua':
            inc = list(tg['lines'])
            for i, x in enumerate(inc):
                last = i == len(inc) - 1
                pieces.append((x, 'optional' if (last and
                                                 not tg['final_newline'])
                               else True))
        else:
            if ln['tab'] is None:
                inc = []
                for k, tab in enumerate(tg['tabs']):
                    if k:
                        inc.append('-->8')
                    inc.extend(tab)
            else:
                inc = list(tg['tabs'][ln['tab']]) if ln['tab'] < len(
                    tg['tabs']) else []
            pieces.extend((x, True) for x in inc)
    opt = [i for i, p in enumerate(pieces) if p[1] == 'optional']
    out = []
    for mask in range(1 << len(opt)):
        text = []
        for i, (x, nl) in enumerate(pieces):
            text.append(x)
            if nl is True or (mask >> opt.index(i)) & 1:
                text.append('\n')
        lines = [x for x in ''.join(text).split('\n') if x != '']
        if lines not in out:
            out.append(lines)
    return out


def execute_splice(sc):
    """One or two loads on the same store; before the second load the
    targets are rewritten in place (same paths, new contents), so a load must
    reflect the files as they are *now*."""
    res = core.new_result()
    with world.World(env={'HOME': '$ROOT/home'}) as w:
        if sc.get('prelude'):
            _prelude_failed_load(w, sc, res)
        sc = dict(sc, lines=_flat_lines(sc['lines']))
        if sc.get('fake_tab_separator'):
            core.bump(res['probes'], 'tab-separator-text-inside-a-multi-line-token')
        if sc.get('big_include'):
            core.bump(res['probes'], 'include-file-larger-than-64KiB')
        if any('\\' in tg['rel'] for tg in sc['targets']):
            core.bump(res['probes'], 'backslash-in-a-target-name')
        views = [sc]
        if sc.get('second'):
            views.append(dict(sc, targets=sc['second']['targets'],
                              lines=_flat_lines(sc['second'].get(
                                  'lines', sc['lines'])),
                              keep_times=sc['second'].get('keep_times'),
                              enoent=None))
        for rno, view in enumerate(views):
            _splice_round(w, view, res, rno)
            if res['violations']:
                if rno:
                    for v in res['violations']:
                        v['vclass'] += ':after-rewrite'
                        v['sig'] += '|after-rewrite'
                    core.bump(res['probes'], 'violation-only-on-second-load')
                break
        if len(views) > 1 and not res['violations']:
            core.bump(res['probes'], 'second-load-after-rewrite')
    return res


class _BuildDamagedCart(Exception):
    pass


def _prelude_failed_load(w, sc, res):
    """A load that fails part-way (an included cart is corrupt) happens first
    in the same process; the loads under test follow on repaired files."""
    from pico8.game import file as pfile
    base = 'work/proj'
    how = sc['prelude']
    if how == 'relative-elsewhere':
        # another project's cart with the same file names was loaded first,
        # by relative name from its own directory
        other = 'work/other'
        for tg in sc['targets']:
            rel = other + '/' + tg['rel']
            if tg['kind'] == 'self':
                continue
            if tg['kind'] == 'lua':
                w.put(rel, b'other_project=1\n')
            else:
                w.put(rel, refcodec.encode_any(rel, refcodec.make_cart(
                    code=b'other_project=1\n-->8\nother_tab1=1\n')))
        incs = ['#include ' + tg['rel'] for tg in sc['targets']
                if tg['kind'] != 'self']
        w.put(other + '/cart.p8', _p8_with_code(
            ('\n'.join(['other_main=1'] + incs) + '\n').encode()))
        cwd0 = os.getcwd()
        os.chdir(w.p(other))
        try:
            pfile.from_file('cart.p8')
            core.bump(res['probes'], 'same-named-cart-loaded-elsewhere-first')
        except BaseException:
            core.bump(res['probes'], 'prelude-load-elsewhere-failed')
        os.chdir(cwd0)
        return
    bad = {'corrupt-header': b'not a cart at all\n',
           'lex-error': refcodec.encode_p8(refcodec.make_cart(
               code=b'x = "unterminated\n')),
           'parse-error': refcodec.encode_p8(refcodec.make_cart(
               code=b'x = = 1\n'))}[how]
    w.put(base + '/broken_inc.p8', bad)
    w.put(base + '/pre.p8', _p8_with_code(
        b'pre_marker=1\n#include broken_inc.p8\npre_marker2=2\n'))
    cwd0 = os.getcwd()
    try:
        pfile.from_file(w.p(base + '/pre.p8'))
        core.bump(res['probes'], 'prelude-load-unexpectedly-succeeded')
    except BaseException:
        core.bump(res['probes'], 'prelude-load-failed-in-included-cart')
        core.bump(res['faults'], 'FAILED-LOAD-FIRST')
    os.chdir(cwd0)
    os.unlink(w.p(base + '/broken_inc.p8'))
    os.unlink(w.p(base + '/pre.p8'))


def _splice_round(w, sc, res, rno):
    from pico8 import tool
    from pico8.game import file as pfile
    ev = res['events']
    cwd0 = os.getcwd()
    w.out.seek(0)
    w.out.truncate(0)
    if True:
        base = 'work/proj'
        if sc.get('layout') == 'carts-sub':
            # a project folder inside the PICO-8 carts folder; same-named
            # decoy files sit at the top of the carts folder
            base = CARTS_DIRS['carts-linux'] + '/game'
            for tg in sc['targets']:
                top = CARTS_DIRS['carts-linux'] + '/' + tg['rel']
                if tg['kind'] == 'self':
                    continue
                if tg['kind'] == 'lua':
                    w.put(top, b'decoy_top=1\n')
                else:
                    w.put(top, refcodec.encode_any(top, refcodec.make_cart(
                        code=b'decoy_top=1\n-->8\ndecoy_tab1=1\n')))
        w.mkdir(base)
        w.mkdir('home')
        if sc.get('via_symlink') and sc.get('layout') != 'carts-sub':
            # the cart directory is addressed through a symbolic link
            if not os.path.lexists(w.p('work/link')):
                os.symlink('proj', w.p('work/link'))
            base = 'work/link'
        expect_open = []
        never_open = []
        for ti, tg in enumerate(sc['targets']):
            rel = base + '/' + tg['rel']
            if tg['kind'] == 'self':
                continue
            code = _target_code(tg)
            if tg['kind'] == 'lua':
                data = code
            else:
                cart = refcodec.make_cart(version=tg.get('version', 33),
                                          code=code)
                data = refcodec.encode_any(rel, cart)
            if any(c in tg['rel'] for c in '[*?'):
                # files that the name would match if it were taken for a
                # shell pattern
                import re as _re
                alt = _re.sub(r'\[(.)[^\]]*\]', r'\1', tg['rel']).replace(
                    '*', 'x').replace('?', 'y')
                if alt != tg['rel']:
                    arel = base + '/' + alt
                    w.put(arel, b'pattern_decoy=1\n' if tg['kind'] == 'lua'
                          else refcodec.encode_any(arel, refcodec.make_cart(
                              code=b'pattern_decoy=1\n')))
                    never_open.append(arel)
            if sc.get('enoent') != ti:
                if rno and sc.get('keep_times'):
                    if w.put_keep_times(rel, data):
                        core.bump(res['probes'],
                                  'rewritten-same-size-same-mtime')
                else:
                    w.put(rel, data)
            elif sc.get('enoent_decoy') == 'case':
                d_, b_ = os.path.split(rel)
                for alt in (b_.upper(), b_.capitalize()):
                    if alt != b_:
                        w.put(os.path.join(d_, alt), data)
                core.bump(res['probes'], 'missing-target-has-case-variant')
            if tg.get('nested'):
                nrel = os.path.dirname(rel) + '/nested_%d.lua' % ti
                if tg['nested'] in ('exists', 'canary'):
                    w.put(nrel, b'canary_nested_%d=1\n' % ti)
                never_open.append(nrel)
        text_lines = _cart_text_lines(sc)
        for ln in sc['lines']:
            if ln['t'] == 'inc':
                expect_open.append(base + '/' + sc['targets'][
                    ln['target']]['rel'])
        code = ('\n'.join(text_lines) + '\n').encode() if text_lines else b''
        cart_rel = base + '/cart.p8'
        w.put(cart_rel, _p8_with_code(code))
        main_abs = w.p(cart_rel)
        if sc['cwd'] == 'deleted':
            # the working directory has been removed under the process;
            # every file is named absolutely
            w.mkdir('work/gone')
            os.chdir(w.p('work/gone'))
            os.rmdir(w.p('work/gone'))
            arg = main_abs
            core.bump(res['probes'], 'working-directory-deleted')
        else:
            cwd_rel = {'root': '', 'base': base,
                       'parent': os.path.dirname(base)}[sc['cwd']]
            os.chdir(w.p(cwd_rel))
            arg = main_abs if sc['argstyle'] == 'abs' else os.path.relpath(
                main_abs, w.p(cwd_rel))
        exc = None
        rc = None
        got = None
        if sc.get('debug_left_on') and rno == 0 and \
                not sc['route'].startswith('listlua'):
            # an earlier p8tool call in this process asked for --debug;
            # picotool keeps that verbosity for the rest of the process
            w.put('work/dbg.p8', _p8_with_code(b'dbg=1\n'))
            try:
                tool.main(['--debug', 'stats', w.p('work/dbg.p8')])
            except BaseException:
                pass
            core.bump(res['probes'], 'debug-verbosity-left-on')
            w.out.seek(0)
            w.out.truncate(0)
        # global flags only where the result does not come from stdout
        # (-q mutes the listing, --debug may legitimately add messages to it)
        gfl = [] if sc['route'].startswith('listlua') else list(
            sc.get('gflags') or [])
        w.start_io_log()
        try:
            if sc['route'] == 'from_file':
                g = pfile.from_file(arg)
                got = b''.join(g.lua.to_lines())
            elif sc['route'] == 'listlua-2files':
                # a cart that loads fine comes first on the same command line
                w.put('work/good.p8', _p8_with_code(b'good_marker=1\n'))
                rc0 = tool.main(gfl + ['listlua', w.p('work/good.p8'), arg])
                text = w.out.getvalue()
                head = '=== %s ===\n' % arg
                if head in text:
                    got = text.split(head, 1)[1].split('\n=== ')[0].encode(
                        'latin-1', 'replace')
                    rc = 0
                    if b'good_marker' in got:
                        got = b'<<the other cart was listed in its place>>\n'
                elif text.count('=== %s ===' % w.p('work/good.p8')) > 1:
                    # the first cart was listed a second time in this one's
                    # place
                    got = b'<<the other cart was listed in its place>>\n'
                    rc = 0
                else:
                    rc = 1          # this cart was not listed: it failed
            elif sc['route'] == 'build-out':
                # the cart is the existing OUT of a build that only replaces
                # another section: loading it expands its includes, and a
                # missing target must fail the build and leave it untouched
                w.put('work/gfxsrc.p8', refcodec.encode_p8(
                    refcodec.make_cart(code=b'gfxsrc=1\n')))
                cart_before = w.snap(cart_rel)
                rc = tool.main(gfl + ['build', arg, '--gfx',
                                      w.p('work/gfxsrc.p8')])
                if rc in (0, None):
                    got = refcodec.decode_p8(w.snap(cart_rel)[2])['code']
                elif w.snap(cart_rel) != cart_before:
                    raise _BuildDamagedCart()
            else:
                rc = tool.main(gfl + ['listlua', arg])
                got = w.out.getvalue().encode('latin-1', 'replace')
        except BaseException as e:
            exc = e
        opens = [o[0][len('$ROOT/'):] for o in w.stop_io_log() if o[1] == 'r']
        failed = exc is not None or rc not in (0, None)
        core.bump(res['ops'], 'load:' + sc['route'])
        if isinstance(exc, _BuildDamagedCart):
            core.violation(
                res, 'C20', 'C20:failed-load-changed-cart',
                'C20|build over a cart whose include fails changed the cart',
                'the build failed while loading the cart (include lines %r) '
                'but the cart file was changed' % (
                    [t for t in text_lines if '#include' in t],))
        n_inc = len(expect_open)
        kinds = sorted({sc['targets'][ln['target']]['kind'] +
                        ('' if ln['tab'] is None else ':tab')
                        for ln in sc['lines'] if ln['t'] == 'inc'})
        shape = '%dinc|%s' % (n_inc, ','.join(kinds))
        missing = sc.get('enoent') is not None and any(
            ln['t'] == 'inc' and ln['target'] == sc['enoent']
            for ln in sc['lines'])
        outcome = 'ok'
        if missing:
            core.bump(res['faults'], 'ENOENT')
            if not failed:
                outcome = 'missing-target-accepted'
                core.violation(
                    res, 'C20', 'C20:missing-target-accepted',
                    'C20|missing include target|load succeeded',
                    'include target %s does not exist but the load '
                    'succeeded; result %r' % (
                        sc['targets'][sc['enoent']]['rel'], (got or b'')[:200]))
            else:
                outcome = 'missing-target-rejected'
        elif failed:
            outcome = 'load-failed'
            core.violation(
                res, 'C20', 'C20:valid-load-failed',
                'C20|valid load failed|%s' % (
                    type(exc).__name__ if exc else 'rc'),
                'loading a cart with include lines %r failed: %s' % (
                    [t for t in text_lines if '#include' in t],
                    world.describe_exc(exc, w) if exc else
                    'rc=%r stderr=%s' % (rc, w.unsubst(w.err.getvalue()[-300:]))))
        else:
            # (1) I/O history
            want_opens = [cart_rel] + expect_open + ['work/gfxsrc.p8',
                                                      'work/good.p8',
                                                      'work/dbg.p8']

            def rp(rel):
                # names are compared after resolving symbolic links (the
                # cart directory may be addressed through one)
                return os.path.realpath(w.p(rel))
            never_real = {rp(x) for x in never_open}
            bad_nested = [o for o in opens if rp(o) in never_real]
            if bad_nested:
                outcome = 'nested-opened'
                core.violation(
                    res, 'C20', 'C20:nested-include-opened',
                    'C20|nested include target opened',
                    'an include line inside an included file was followed: '
                    'opened %s' % bad_nested)
            elif not {rp(o) for o in opens} <= {rp(x) for x in want_opens}:
                # only files that the cart's own include lines name may be
                # read (how often and in which order is the implementation's
                # business: a per-call cache that reads a twice-included file
                # once is fine)
                outcome = 'open-history'
                core.violation(
                    res, 'C20', 'C20:open-history',
                    'C20|unexpected file opened',
                    'files opened for reading: %s; only %s may be read' % (
                        opens, sorted(set(want_opens))))
            else:
                # (2) splice
                if sc['route'] in ('listlua', 'listlua-2files'):
                    got_lines = [x for x in got.decode('latin-1').split('\n')
                                 if x.strip() != '']
                else:
                    got_lines = [x for x in got.decode('latin-1').split('\n')
                                 if x != '']
                models = _splice_model(sc)
                models = [[x for x in m if x != ''] for m in models]
                if got_lines not in models:
                    outcome = 'splice-mismatch'
                    core.violation(
                        res, 'C20', 'C20:splice-mismatch',
                        'C20|splice|%s' % shape,
                        'cart lines %r with targets %s: loaded code lines %r,'
                        ' reference splice %r' % (
                            text_lines,
                            core.dumps([{k: v for k, v in t.items()}
                                        for t in sc['targets']])[:600],
                            got_lines[:40], models[0][:40]))
        if n_inc > 1:
            core.bump(res['probes'], 'multiple-include-lines')
        if any(ln['t'] == 'inc' and ln['tab'] is not None and
               ln['tab'] >= len(sc['targets'][ln['target']].get(
                   'tabs', [0] * 99))
               for ln in sc['lines']):
            core.bump(res['probes'], 'tab-selector-past-last-tab')
        if sc['lines'] and sc['lines'][0]['t'] == 'inc':
            core.bump(res['probes'], 'include-on-first-line')
        if sc['lines'] and sc['lines'][-1]['t'] == 'inc':
            core.bump(res['probes'], 'include-on-last-line')
        if any(t.get('nested') for t in sc['targets']) and n_inc:
            core.bump(res['probes'], 'nested-include-present')
        res['states'].append('splice|%s|%s|%s%s' % (
            sc['route'], shape, outcome, '|reload' if rno else ''))
        res['nontrivial'] = res['nontrivial'] or n_inc > 0
        ev.append(('splice', rno, sc['route'], shape, outcome, opens,
                   core.sha(got or b'')[:16]))
        os.chdir(cwd0)


# ---------------------------------------------------------------------------
# engine interface

def generate(rng, prop, tier, index):
    if prop == 'C12':
        return gen_c12(rng, tier, index)
    return gen_c20(rng, tier, index)


def enumerated(prop, tier, seed):
    if prop == 'C12':
        return enumerated_c12(tier, seed)
    return []


def plan(prop, tier):
    if prop == 'C12':
        return {'runs': 9000 if tier == 'quick' else 250000,
                'opt_runs': 1100 if tier == 'quick' else 15000,
                'wall_cap': 900 if tier == 'quick' else 6 * 3600}
    return {'runs': 6000 if tier == 'quick' else 250000,
            'opt_runs': 750 if tier == 'quick' else 15000,
            'wall_cap': 900 if tier == 'quick' else 6 * 3600}


def shrink(sc):
    if sc['mode'] == 'splice':
        lines = sc['lines']
        for cand in core.ddmin_list(lines):
            yield dict(sc, lines=cand)
        for i, ln in enumerate(lines):
            if ln['t'] == 'inc':
                for k, v in (('indent', ''), ('gap', ' '), ('dot', False)):
                    if ln.get(k) != v:
                        yield dict(sc, lines=lines[:i] + [dict(ln, **{k: v})]
                                   + lines[i + 1:])
        for ti, tg in enumerate(sc['targets']):
            if tg.get('lines') and not tg.get('fragment') and \
                    len(tg['lines']) <= 400:
                # (a file that is big on purpose stays as it is: every
                # attempt to cut it costs seconds and cannot succeed)
                for c in core.ddmin_list(tg['lines']):
                    yield dict(sc, targets=sc['targets'][:ti] + [
                        dict(tg, lines=c)] + sc['targets'][ti + 1:])
            if tg.get('tabs'):
                for k, tab in enumerate(tg['tabs']):
                    for c in core.ddmin_list(tab):
                        tabs = tg['tabs'][:k] + [c] + tg['tabs'][k + 1:]
                        yield dict(sc, targets=sc['targets'][:ti] + [
                            dict(tg, tabs=tabs)] + sc['targets'][ti + 1:])
        for i, ln in enumerate(lines):
            if ln['t'] == 'cblock':
                yield dict(sc, lines=lines[:i] + ln['inner'] + lines[i + 1:])
        for k in ('prelude', 'via_symlink', 'second', 'layout',
                  'enoent_decoy'):
            if sc.get(k):
                yield {kk: v for kk, v in sc.items() if kk != k}
        if sc['route'] != 'from_file':
            yield dict(sc, route='from_file')
        if sc['cwd'] != 'root' or sc['argstyle'] != 'abs':
            yield dict(sc, cwd='root', argstyle='abs')
        return
    # C12: pin the derived string, then shorten it component-wise
    if sc.get('S') is None:
        return
    S = sc['S']
    parts = S.split('/')
    for i in range(len(parts)):
        cand = '/'.join(parts[:i] + parts[i + 1:])
        if cand != S:
            yield dict(sc, S=cand)
    for k, v in (('cwd', 'root'), ('argstyle', 'abs'), ('home', 'home'),
                 ('route', 'from_file' if sc['mode'] == 'include'
                  else 'build'), ('tab', None), ('nest', False),
                 ('opts', ''), ('warmup', False), ('callform', 'paren'),
                 ('backslash', False), ('highbyte', 0)):
        if k in sc and sc[k] != v:
            yield dict(sc, **{k: v})
    lp = sc.get('lua_path')
    if lp and ';' in lp.get('value', ''):
        ents = lp['value'].split(';')
        for i in range(len(ents)):
            yield dict(sc, lua_path=dict(lp, value=';'.join(
                ents[:i] + ents[i + 1:])))
    if lp and lp['how'] not in ('arg', 'default'):
        yield dict(sc, lua_path=dict(lp, how='arg'))


def pin(sc):
    """Resolve the tree-derived string so that the scenario is explicit (used
    before minimisation and in replay files)."""
    if sc.get('mode') == 'splice' or sc.get('S') is not None:
        return sc
    with world.World(env={'HOME': '$ROOT/home'}) as w:
        info = build_tree(w, sc)
        return dict(sc, S=_derive_S(sc, w, info), style='given')


RULE = {
    'C12': 'per run a seeded tree under $ROOT: the permitted area (project '
           'directory, or one of the three PICO-8 carts folders under $HOME, '
           'or a `carts-old` folder whose name extends the carts folder\'s) '
           'with canary files (unique markers) in the parent, grandparent, '
           'cousins, prefix-sharing sibling directories and files (`projx/`, '
           '`proj-old/`, `proj.lua`), $HOME, the other carts folders, an '
           'absolute-only directory and around the library directories; one '
           'operation: file.from_file / listlua / luamin of a cart with '
           '`#include S`, or `build --lua main.lua` where main or a nested '
           'package calls require("S") under load path {default, --lua-path, '
           'PICO8_LUA_PATH, both} with entries such as `?/init.lua`, '
           '`$ROOT/libs/sub/?/init.lua`, `../?.lua`; S aims at a canary '
           '(relative path from the base, absolute, or the string that a '
           'load-path entry expands to it) with perturbations (`./`, '
           '`sub/../`, `//`, dropped components), or is composed from the '
           'component alphabet up to 6 components; cwd, HOME and argument '
           'style vary. Oracle: every audit-hook open() under $ROOT is an '
           'explicit operand or component-wise inside a permitted root; no '
           'canary marker reaches the result; an include string resolving '
           'outside the root must fail. distinct = distinct tuples (mode, '
           'layout, route, string class, load-path source, outcome); '
           'non-trivial iff a file inside a root was opened or the operation '
           'was rejected',
    'C20': 'seeded carts with 0-4 `#include` lines at first/middle/last/'
           'adjacent positions (varying indentation and spacing), 0-4 targets '
           '(.lua with/without final newline, .p8 and .p8.png written by the '
           'reference encoders, 1-5 tabs) in the cart directory and '
           'sub-directories, tab selectors 0..tabs+1, include lines inside '
           'included files (target missing / present), ENOENT on a target, '
           'cwd and argument style varied; oracle: only the cart and the '
           'targets of its own include lines are opened for reading, nested '
           'targets never; loaded code lines == reference splice (empty lines '
           'dropped; for a .lua target without final newline both glued and '
           'separated readings accepted); a missing target fails the load. '
           'distinct = distinct tuples (route, number and kinds of includes, '
           'outcome); non-trivial iff the cart has at least one include line',
}

ASSUMPTIONS = {
    'C12': ['only open() events count, as the statement says; isfile/exists '
            'probes are not opens',
            'symlinks, Windows path semantics and case-insensitive file '
            'systems are not modelled',
            'for require, the permitted roots are the union over the '
            'legitimately loaded files (each may require relative to its own '
            'directory)'],
    'C20': ['whether an included file lacking a final newline must be given '
            'one is left open (both readings accepted)',
            'code is ASCII marker lines; include recognition inside strings '
            'or comments is not exercised'],
}

REQUIRED_PROBES = {
    ('C12', 'quick'): ['opened-inside-root', 'rejected-or-failed',
                       'carts-folder-root-used', 'nested-require-resolved'],
    ('C20', 'quick'): ['multiple-include-lines', 'tab-selector-past-last-tab',
                       'include-on-first-line', 'include-on-last-line',
                       'nested-include-present'],
}


RULE_MORE = {'C12': " Added in the build rounds: home-relative (~), `;`-carrying, backslash and high-byte spellings, paren-less require forms, eleven CLI routes that load carts, case-variant siblings, a directory literally named ~, a pico-8/carts tree below cwd, warm-up loads/builds earlier in the process (same-named cart elsewhere, a load failing half-way one level up, another HOME, an explicit --lua-path that must not outlive its build). Round 6: the cart required as a library by a program (name spelled in full, or a load path with a cart extension); the file the string aims at read first, legitimately, by a cart that lives next to it. Round 7: a symbolic link to a directory elsewhere inside every base (`shared/..` is the base lexically, another directory physically); a project directory with `?` in its name and siblings named as a substitution would give; the warm-up build resolves a package through a directory-carrying entry; a file opened under another name than the checked one is identified by (device, inode) against the files reachable inside the permitted roots. Round 8: a load path on the command line and a different one in the environment at once, with the string naming a library that only the environment's path reaches, also from a package of a package; names that look like a drive prefix (`c:/x`, `C:\\\\x`) with directories so named in every possible working directory; a tree merely named like a carts folder outside HOME.", 'C20': ' Added in the build rounds: target names with extension-like parts, header versions 1-41 of included carts, a project inside the carts folder with same-named decoys above it, cart directory reached through a symbolic link, a load that fails inside an included cart first, a same-named cart loaded elsewhere first, debug verbosity left on, `p8tool listlua good cart`, and a build over the including cart. Round 6: a cart that includes itself (whole or by tab: its own code as written, no cycle); include lines inside real block comments and after lines that merely look like comment brackets (the splice is textual); files next to a missing target whose names differ only by letter case (the load must still fail). Round 7: second loads after targets were rewritten with the same size and timestamps; target names with [, * and ? next to files the name would match as a shell pattern; include files that only make sense in context (they open a function, table, comment or long string that the cart closes on the next line); a deleted working directory. Round 8: included carts in which a `-->8` line sits inside a multi-line string or comment (text, not a tab separator); include files larger than 64 KiB whose string escapes lie across the 64 KiB marks; backslashes in target file names.'}
