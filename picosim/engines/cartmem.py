"""Engine `cartmem` (C17, C18): histories of accessor calls and raw writes on
the shared cart memory of a real `Game`, checked against MemModel after every
operation."""

import os

from picosim import core, models, refcodec, world

NAME = 'cartmem'
PROPS = ('C17', 'C18')

ACCESSOR_OPS = (
    'gfx.get_sprite', 'gfx.set_sprite',
    'map.get_cell', 'map.set_cell', 'map.get_rect_tiles',
    'map.set_rect_tiles', 'map.get_rect_pixels',
    'gff.get_flags', 'gff.set_flags', 'gff.clear_flags', 'gff.reset_flags',
    'sfx.get_note', 'sfx.set_note', 'sfx.get_properties',
    'sfx.set_properties',
    'music.get_channel', 'music.set_channel', 'music.get_properties',
    'music.set_properties',
)
COPY_OP = 'map.copy_rect'      # get_rect_tiles, then set_rect_tiles(result)
RELOAD_OP = 'game.save_reload'  # write the cart, load it back, carry on
REPLACE_OP = 'game.replace_section'  # assign a new section object
DEEPCOPY_OP = 'game.deepcopy'   # carry on with copy.deepcopy(game)
CLI_OP = 'cli.call'             # an unrelated p8tool command in this process
SHALLOW_OP = 'game.shallow_copy'  # carry on with copy.copy of the map / game
RAW_OP = 'game.write_cart_data'
ACCESSOR_OPS = ACCESSOR_OPS + (COPY_OP, 'gfx.copy_sprite', RELOAD_OP,
                               REPLACE_OP, DEEPCOPY_OP, CLI_OP)
ALL_OPS = ACCESSOR_OPS + (RAW_OP,)

B = models.BOUNDARIES


# ---------------------------------------------------------------------------
# generation

def _edge(rng, lo, hi, edges):
    """Value in [lo, hi] biased to the listed edge values."""
    if rng.random() < 0.6:
        v = rng.choice(edges)
        if lo <= v <= hi:
            return v
    return rng.randint(lo, hi)


def _sprite_data(rng, maxw=20, maxh=20):
    h = rng.choice([0, 1, 1, 2, 3, 8, 9, 16, rng.randint(0, maxh)])
    rows = []
    ragged = rng.random() < 0.3
    w0 = rng.choice([0, 1, 2, 7, 8, 9, 16, 17, rng.randint(0, maxw)])
    transparent = rng.random() < 0.4
    for _ in range(h):
        w = rng.randint(0, w0) if ragged else w0
        row = []
        for _ in range(w):
            if transparent and rng.random() < 0.3:
                row.append(16)
            else:
                row.append(rng.randint(0, 15))
        rows.append(row)
    return rows


def _tile_rect(rng):
    h = rng.choice([0, 1, 1, 2, 3, 5, rng.randint(0, 12)])
    w0 = rng.choice([0, 1, 2, 3, 5, rng.randint(0, 12)])
    ragged = rng.random() < 0.3
    if rng.random() < 0.3:
        # runs of consecutive sprite ids, also across the end of a sheet row
        rows = []
        for _ in range(h):
            start = rng.choice([13, 14, 15, 29, 30, 31, 254, 253,
                                rng.randint(0, 255)])
            rows.append([(start + i) & 0xff for i in range(max(w0, 2))])
        return rows
    return [[rng.randint(0, 255) for _ in range(
        rng.randint(0, w0) if ragged else w0)] for _ in range(h)]


def _opt(rng, lo, hi):
    return None if rng.random() < 0.35 else rng.randint(lo, hi)


def gen_op(rng, kind):
    a = {}
    if kind == 'gfx.get_sprite':
        a = {'id': _edge(rng, 0, 255, [0, 15, 16, 240, 255, 127, 128]),
             'tile_width': rng.choice([1, 1, 2, 3, 16, 17]),
             'tile_height': rng.choice([1, 1, 2, 3, 16, 17])}
        if rng.random() < 0.3:
            a.pop('tile_width')
        if rng.random() < 0.3:
            a.pop('tile_height')
    elif kind == 'gfx.set_sprite':
        a = {'id': _edge(rng, 0, 255, [0, 15, 16, 240, 255, 127, 128]),
             'sprite': _sprite_data(rng),
             'as_bytearray': rng.random() < 0.3}
        if rng.random() < 0.07:
            # a whole sheet (or half of one) in one call, every pixel opaque:
            # kept as (seed, width, height) and expanded by the executor
            a['sprite'] = {'$rows': [rng.randint(1, 10**9),
                                     rng.choice([128, 128, 128, 127, 129]),
                                     rng.choice([128, 128, 64, 127, 129])]}
            a['id'] = rng.choice([0, 0, 0, 128, 1])
            a['as_bytearray'] = rng.random() < 0.7
            if rng.random() < 0.8:
                return {'op': kind, 'args': a}
        if rng.random() < 0.6:
            a['tile_x_offset'] = rng.choice(
                [0, 1, 3, 7, 8, 9, rng.randint(0, 130)])
        if rng.random() < 0.6:
            a['tile_y_offset'] = rng.choice(
                [0, 1, 3, 7, 8, 9, rng.randint(0, 130)])
    elif kind in ('map.get_cell', 'map.set_cell'):
        a = {'x': _edge(rng, 0, 127, [0, 1, 126, 127]),
             'y': _edge(rng, 0, 63, [0, 31, 32, 33, 62, 63])}
        if kind == 'map.set_cell':
            a['val'] = _edge(rng, 0, 255, [0, 1, 255])
    elif kind in ('map.get_rect_tiles', 'map.get_rect_pixels'):
        big = kind == 'map.get_rect_tiles'
        x = _edge(rng, 0, 127, [0, 120, 125, 126, 127])
        y = _edge(rng, 0, 63, [0, 30, 31, 32, 60, 62, 63])
        h = rng.randint(1, min(64 - y, 8 if big else 3))
        w = rng.choice([1, 2, 3, 128 - x, 129 - x, 130 - x + rng.randint(
            0, 5)]) if big else rng.choice([1, 2, 128 - x if x > 123 else 1,
                                            129 - x if x > 123 else 2])
        a = {'x': x, 'y': y, 'width': max(1, w), 'height': h}
        if rng.random() < 0.15:
            a.pop('width')
            a.pop('height')
    elif kind == 'map.set_rect_tiles':
        a = {'rect': _tile_rect(rng),
             'x': _edge(rng, 0, 127, [0, 120, 125, 126, 127]),
             'y': _edge(rng, 0, 63, [0, 30, 31, 32, 58, 60, 62, 63])}
        if rng.random() < 0.12:
            # an origin beyond the edge: the whole rectangle is discarded
            a['x'] = rng.choice([128, 129, 130, 135, 140, a['x']])
            a['y'] = rng.choice([64, 65, 70, a['y'], a['y']])
    elif kind == COPY_OP:
        x = _edge(rng, 0, 127, [0, 120, 125, 126, 127])
        y = _edge(rng, 0, 63, [0, 30, 31, 32, 60, 62, 63])
        h = rng.randint(1, min(64 - y, 6))
        w_ = rng.choice([1, 2, 3, 5, max(1, 128 - x), max(1, 130 - x)])
        # destinations overlapping the source are the interesting ones
        dx = x + rng.choice([0, 1, -1, 2, 0]) if rng.random() < 0.7 \
            else rng.randint(0, 127)
        dy = y + rng.choice([0, 1, -1, 0, 2]) if rng.random() < 0.7 \
            else rng.randint(0, 63)
        a = {'x': x, 'y': y, 'width': w_, 'height': h,
             'dx': min(127, max(0, dx)), 'dy': min(63, max(0, dy))}
    elif kind == 'gfx.copy_sprite':
        a = {'id': _edge(rng, 0, 255, [0, 15, 16, 240, 255, 127, 128]),
             'tile_width': rng.choice([1, 1, 2, 3]),
             'tile_height': rng.choice([1, 1, 2, 3]),
             'dest': _edge(rng, 0, 255, [0, 15, 16, 240, 255, 127, 128]),
             'tile_x_offset': rng.choice([0, 0, 1, 4, 7]),
             'tile_y_offset': rng.choice([0, 0, 1, 4, 7])}
        if rng.random() < 0.5:
            a['dest'] = a['id']          # overlapping copy
        if rng.random() < 0.1:
            # the whole sheet read and written back in one piece
            a = {'id': 0, 'tile_width': 16, 'tile_height': 16, 'dest': 0,
                 'tile_x_offset': 0, 'tile_y_offset': 0}
    elif kind == RELOAD_OP:
        a = {'fmt': rng.choice(['png', 'png', 'p8'])}
    elif kind == DEEPCOPY_OP:
        a = {}
    elif kind == CLI_OP:
        a = {'argv': rng.choice([['--debug', 'stats'], ['-q', 'stats'],
                                 ['--debug', 'listlua'], ['stats']]),
             'fmt': rng.choice(['p8'] * 5 + ['png'])}
    elif kind == REPLACE_OP:
        a = {'section': rng.choice(['gfx', 'map', 'gff', 'music', 'sfx',
                                    'sfx', 'music']),
             'data_seed': rng.randint(1, 10**9),
             'from': rng.choice(['bytes', 'bytearray'])}
    elif kind.startswith('gff.'):
        a = {'id': _edge(rng, 0, 255, [0, 1, 254, 255]),
             'flags': rng.choice([1, 2, 4, 8, 16, 32, 64, 128, 255, 0,
                                  rng.randint(0, 255)])}
    elif kind == 'sfx.get_note':
        a = {'id': _edge(rng, 0, 63, [0, 1, 62, 63]),
             'note': _edge(rng, 0, 31, [0, 1, 30, 31])}
    elif kind == 'sfx.set_note':
        a = {'id': _edge(rng, 0, 63, [0, 1, 62, 63]),
             'note': _edge(rng, 0, 31, [0, 1, 30, 31]),
             'pitch': _opt(rng, 0, 63), 'waveform': _opt(rng, 0, 15),
             'volume': _opt(rng, 0, 7), 'effect': _opt(rng, 0, 7)}
    elif kind == 'sfx.get_properties':
        a = {'id': _edge(rng, 0, 63, [0, 1, 62, 63])}
    elif kind == 'sfx.set_properties':
        a = {'id': _edge(rng, 0, 63, [0, 1, 62, 63]),
             'editor_mode': _opt(rng, 0, 1),
             'note_duration': _opt(rng, 0, 255),
             'loop_start': _opt(rng, 0, 63), 'loop_end': _opt(rng, 0, 63)}
    elif kind == 'music.get_channel':
        a = {'id': _edge(rng, 0, 63, [0, 1, 62, 63]),
             'channel': rng.randint(0, 3)}
    elif kind == 'music.set_channel':
        a = {'id': _edge(rng, 0, 63, [0, 1, 62, 63]),
             'channel': rng.randint(0, 3),
             'pattern': _opt(rng, 0, 63)}
    elif kind == 'music.get_properties':
        a = {'id': _edge(rng, 0, 63, [0, 1, 62, 63])}
    elif kind == 'music.set_properties':
        def ob():
            return rng.choice([None, True, False])
        a = {'id': _edge(rng, 0, 63, [0, 1, 62, 63]),
             'begin': ob(), 'end': ob(), 'stop': ob()}
    elif kind == RAW_OP:
        r = rng.random()
        if r < 0.55:
            s, e = rng.choice(boundary_pairs())
        elif r < 0.65:
            s = rng.randint(0, 0x4300)
            e = s
        elif r < 0.7:
            s, e = 0, 0x4300
        elif r < 0.74:
            # sizes with a meaning of their own: a whole 32 KiB ROM image, the
            # code area, 64 KiB
            s = rng.choice([0, 0, 0, 1, 0x4300])
            e = s + rng.choice([0x8000, 0x8000, 0x10000, 0x8000 - 0x4300,
                                0x4301, 0x8020])
        elif r < 0.77:
            # start addresses that only fit in more than 16 (or 15) bits
            s = rng.choice([0x10000, 0x10000, 0x8000, 0x20000, 2**32]) + \
                rng.choice([0, 0, 1, 0x1fff, 0x2000, 0x3100, 0x42ff,
                            rng.randint(0, 0x4300)])
            e = s + rng.choice([0, 1, 2, 16, 256])
        elif r < 0.8:
            s = rng.randint(0, 0x4300)
            e = 0x4300 + rng.randint(1, 40)
        else:
            s = rng.randint(0, 0x4300)
            e = rng.randint(s, 0x4300)
        a = {'start_addr': s, 'len': e - s, 'data_seed': rng.randint(1, 10**9),
             'as_bytearray': rng.random() < 0.3,
             'positional': rng.random() < 0.5}
        if rng.random() < 0.1:
            a['as_memoryview'] = True
        if rng.random() < 0.08:
            # the payload is what to_bytes() of one of the cart's own
            # sections returns, written somewhere it overlaps or follows
            sec = rng.choice(['gfx', 'map', 'gff', 'music', 'sfx'])
            size = refcodec.REGION_SIZE[sec]
            base = refcodec.REGION_ADDR[sec]
            s = rng.choice([max(0, base - size // 2), base + size // 2,
                            base + 1, base, rng.randint(0, 0x4300 - size)])
            s = min(s, 0x4300 - size)
            a = {'start_addr': s, 'len': size, 'own_section': sec,
                 'positional': rng.random() < 0.5}
            if rng.random() < 0.5:
                # ... or a memoryview of a part of that live buffer, written
                # where it overlaps its own source across a region boundary
                ln = min(size, rng.choice([4, 16, 32, 64, 512]))
                lo = rng.choice([size - ln, size - ln, 0,
                                 rng.randint(0, size - ln)])
                s = base + lo + rng.choice([-ln // 2, ln // 2, ln // 2, 1,
                                            -1, ln])
                s = max(0, min(s, 0x4300 - ln))
                a.update({'start_addr': s, 'len': ln,
                          'own_view': [lo, lo + ln]})
    else:
        raise core.HarnessError(kind)
    if kind != RAW_OP and rng.random() < 0.5:
        a['pos'] = True
    if kind in ('gfx.set_sprite', 'map.set_rect_tiles') and \
            rng.random() < 0.4:
        a['rows_as'] = rng.choice(['tuple', 'iter', 'gen', 'bytearray',
                                   'reused-buffer', 'array-H', 'array-B',
                                   'memoryview-H', 'memoryview-B',
                                   'memoryview-i'])
    return {'op': kind, 'args': a}


_BP = None


def boundary_pairs():
    """All (start, end) with start and end each within +-2 bytes of one of
    the six region boundaries, start <= end, start >= 0."""
    global _BP
    if _BP is None:
        pts = sorted({b + d for b in B for d in (-2, -1, 0, 1, 2)
                      if b + d >= 0})
        _BP = [(s, e) for s in pts for e in pts if s <= e]
    return _BP


def gen_init(rng):
    mode = rng.choice(['bytes'] * 8 + ['p8', 'png', 'empty', 'empty'])
    regions = {}
    for k in refcodec.REGIONS:
        regions[k] = 'empty' if mode == 'empty' else rng.choice(
            ['zero', 'empty', {'$fill': rng.choice([0xff, 0x80, 0x7f, 0x0f,
                                                    0xf0, 0x40, 1])}] +
            [rng.randint(1, 10**9)] * 4)
    if mode == 'p8' and rng.random() < 0.5:
        # only the first rows of some sections hold data (the file then ends
        # those sections early, as PICO-8 writes them)
        for k in refcodec.REGIONS:
            if rng.random() < 0.6:
                regions[k] = {'$head': rng.randint(1, 10**9),
                              'rows': rng.choice([0, 1, 2, 5, 16, 31])}
    init = {'mode': mode, 'regions': regions,
            'version': rng.choice([8, 16, 33, 33, 0, 4, 5, 15, 41]),
            'warnings': rng.choice(['default'] * 3 + ['error']),
            'bystander': rng.choice(['fresh', 'fresh', 'clone', 'reload'])}
    if mode == 'p8':
        order = ['gfx', 'label', 'gff', 'map', 'sfx', 'music']
        if rng.random() < 0.4:
            rng.shuffle(order)
        init['p8_style'] = {'strip_trailing_empty': rng.random() < 0.6,
                            'omit_empty': rng.random() < 0.5,
                            'order': order if order != [
                                'gfx', 'label', 'gff', 'map', 'sfx', 'music']
                            else None}
    return init


def generate(rng, prop, tier, index):
    """Swarm style: each run enables a random subset of operation kinds."""
    init = gen_init(rng)
    if prop == 'C17':
        pool = list(ACCESSOR_OPS)
        k = rng.randint(1, len(pool))
        enabled = rng.sample(pool, k)
        if rng.random() < 0.5:
            # bias to the aliasing pair: lower map rows and lower sprites
            enabled += ['map.set_cell', 'gfx.get_sprite', 'gfx.set_sprite',
                        'map.get_cell', 'map.get_rect_pixels']
        if rng.random() < 0.15:
            enabled.append(RAW_OP)
    else:
        enabled = [RAW_OP] * 4
        if rng.random() < 0.5:
            enabled += rng.sample(list(ACCESSOR_OPS), rng.randint(1, 4))
        if rng.random() < 0.3:
            enabled += [REPLACE_OP]
    n = rng.choice([1, 2, 3, 5, 8, 13, 21, 30])
    ops = [gen_op(rng, rng.choice(enabled)) for _ in range(n)]
    sc = {'engine': NAME, 'init': init, 'ops': ops}
    _round8(core.derive_rng(rng.randrange(10**9), 'round8', 0), sc)
    return sc


def _round8(rng, sc):
    """Variations added in round 8.  They are drawn from a generator of
    their own, after everything else, so that the scenarios of earlier rounds
    stay what they were apart from what is added here."""
    ops = sc['ops']
    init = sc['init']
    for o in ops:
        a = o['args']
        if o['op'] in ('gfx.set_sprite', 'map.set_rect_tiles') and \
                not a.get('rows_as') and not a.get('as_bytearray') and \
                not isinstance(a.get('sprite'), dict) and rng.random() < 0.12:
            # (withdrawn: rows cut one after the other from one shared
            # stream of values.  A behaviour-preserving refactor that stops
            # reading a row at the sheet's edge - refactors/C17-r2 - was
            # flagged: that every clipped row is read to its end is not
            # documented.  The draw stays so that all other scenarios are
            # what they were.)
            pass
        if o['op'] == RAW_OP and not a.get('own_section') and \
                not a.get('as_bytearray') and not a.get('as_memoryview') and \
                rng.random() < 0.12:
            # the payload is a slice of a memoryview of a larger, immutable
            # bytes object (a ROM image, say)
            a['view_of_bytes'] = [rng.choice([0, 1, 16, 0x3200]),
                                  rng.choice([0, 1, 16, 4000])]
    if rng.random() < 0.08:
        # the history continues on a shallow copy (copy.copy) of the map
        # section or of the game
        ops.insert(rng.randint(0, len(ops)), {
            'op': SHALLOW_OP, 'args': {'what': rng.choice(['map', 'game',
                                                           'map'])}})
    if all(o['op'] == RAW_OP for o in ops) and rng.random() < 0.15:
        # the map section object is taken over from another live game (as
        # `p8tool build` does); from then on only raw writes follow
        ops.insert(rng.randint(0, len(ops)), {
            'op': REPLACE_OP, 'args': {'section': 'map', 'from': 'donor'}})
    if any(o['op'] == RAW_OP for o in ops) and rng.random() < 0.08:
        # the game is an instance of a caller's subclass whose
        # write_cart_data takes bank-relative addresses and defers to the
        # inherited one
        init['subclass_base'] = rng.choice([0x100, 0x1000, 0x10, 0x2fff])


def enumerated(prop, tier, seed):
    """C18: every boundary pair once as a single write from seeded contents."""
    if prop != 'C18':
        return []
    out = []
    for i, (s, e) in enumerate(boundary_pairs()):
        rng = core.derive_rng(seed, 'C18-enum', i)
        init = {'mode': 'bytes', 'version': 33,
                'regions': {k: rng.randint(1, 10**9)
                            for k in refcodec.REGIONS}}
        out.append({'engine': NAME, 'init': init, 'enumerated': True, 'ops': [
            {'op': RAW_OP, 'args': {
                'start_addr': s, 'len': e - s,
                'data_seed': rng.randint(1, 10**9), 'as_bytearray': False,
                'positional': bool(i & 1)}}]})
    return out


# ---------------------------------------------------------------------------
# execution

def _build_game(w, init):
    from pico8.game import game as pgame
    from pico8.game import file as pfile
    from pico8.gfx.gfx import Gfx
    from pico8.gff.gff import Gff
    from pico8.map.map import Map
    from pico8.sfx.sfx import Sfx
    from pico8.music.music import Music
    spec = {'version': init.get('version', 33), 'regions': init['regions'],
            'code': {'$txt': 'x=1\n'}}
    cart = refcodec.cart_from_spec(spec)
    mode = init['mode']
    if mode == 'empty':
        # exactly what the documented factory delivers
        g = pgame.Game.make_empty_game(version=cart['version'])
    elif mode == 'bytes':
        v = cart['version']
        g = pgame.Game.make_empty_game(version=v)
        g.gfx = Gfx.from_bytes(cart['gfx'], version=v)
        g.map = Map.from_bytes(cart['map'], version=v, gfx=g.gfx)
        g.gff = Gff.from_bytes(cart['gff'], version=v)
        g.music = Music.from_bytes(cart['music'], version=v)
        g.sfx = Sfx.from_bytes(cart['sfx'], version=v)
    else:
        name = 'cart.p8' if mode == 'p8' else 'cart.p8.png'
        if mode == 'p8':
            w.put(name, refcodec.encode_p8(cart, init.get('p8_style')))
        else:
            w.put(name, refcodec.encode_any(name, cart))
        g = pfile.from_file(w.p(name))
    return g, cart


def _flat(g, skip_map=False):
    return b''.join(bytes(getattr(g, k)._data) for k in refcodec.REGIONS
                    if not (skip_map and k == 'map'))


def _cut_map(flat, cut):
    if not cut:
        return flat
    a = refcodec.REGION_ADDR['map']
    return flat[:a] + flat[a + refcodec.REGION_SIZE['map']:]


def _sizes(g):
    return tuple(len(getattr(g, k)._data) for k in refcodec.REGIONS)


EXPECTED_SIZES = tuple(refcodec.REGION_SIZE[k] for k in refcodec.REGIONS)


def _norm(v):
    """Normalise a getter result for comparison."""
    if isinstance(v, (list, tuple)):
        return [_norm(x) for x in v]
    if isinstance(v, (bytes, bytearray, memoryview)):
        return list(bytes(v))
    if isinstance(v, bool):
        return bool(v)
    return v


def _edge_class(op, a):
    """Coarse description of where the operation lands (for signatures and
    the state measure)."""
    k = op
    if k == 'gfx.set_sprite':
        x0 = (a['id'] % 16) * 8 + a.get('tile_x_offset', 0)
        y0 = (a['id'] // 16) * 8 + a.get('tile_y_offset', 0)
        wmax = max([len(r) for r in a['sprite']] + [0])
        h = len(a['sprite'])
        right = x0 + wmax > 128
        bottom = y0 + h > 128
        return ('right' if right else '') + ('bottom' if bottom else '') or \
            ('shared' if y0 + h > 64 else 'inside')
    if k == 'gfx.get_sprite':
        right = (a['id'] % 16) + a.get('tile_width', 1) > 16
        bottom = (a['id'] // 16) + a.get('tile_height', 1) > 16
        return ('right' if right else '') + ('bottom' if bottom else '') or \
            'inside'
    if k == 'map.set_rect_tiles':
        wmax = max([len(r) for r in a['rect']] + [0])
        right = a['x'] + wmax > 128
        bottom = a['y'] + len(a['rect']) > 64
        return ('right' if right else '') + ('bottom' if bottom else '') or \
            ('shared' if a['y'] + len(a['rect']) > 32 else 'upper')
    if k in ('map.get_rect_tiles', 'map.get_rect_pixels'):
        right = a['x'] + a.get('width', 1) > 128
        return ('right' if right else 'inside') + (
            '-shared' if a['y'] + a.get('height', 1) > 32 else '')
    if k in ('map.get_cell', 'map.set_cell'):
        return 'shared' if a['y'] >= 32 else 'upper'
    if k == RAW_OP:
        s, e = a['start_addr'], a['start_addr'] + a['len']
        if e > 0x4300:
            return 'past-end'
        if a['len'] == 0:
            return 'empty'
        parts = []
        names = ('gfx', 'map', 'gff', 'music', 'sfx')
        for i, n in enumerate(names):
            lo, hi = B[i], B[i + 1]
            if s == lo:
                parts.append('start@' + n)
            if e == hi:
                parts.append('end@' + n + '-end')
            if e == lo:
                parts.append('end@' + n + '-start')
        spans = sum(1 for i in range(5) if s < B[i + 1] and e > B[i])
        parts.append('spans%d' % spans)
        return '+'.join(parts)
    return '-'


def _model(m, op, a):
    """Apply op to the model -> (model_result, rejected_expected)."""
    sec, meth = op.split('.')
    if op == RAW_OP:
        if a.get('own_section'):
            sec = a['own_section']
            base = refcodec.REGION_ADDR[sec]
            data = bytes(m.m[base:base + refcodec.REGION_SIZE[sec]])
            if a.get('own_view'):
                data = data[a['own_view'][0]:a['own_view'][1]]
        else:
            data = core.rnd_bytes(a['data_seed'], a['len'])
        return None, not m.write_cart_data(data, a['start_addr'])
    kw = {k: v for k, v in a.items() if k not in ('as_bytearray', 'pos',
                                                  'rows_as')}
    if op == COPY_OP:
        rect = m.map_get_rect_tiles(a['x'], a['y'], a['width'], a['height'])
        m.map_set_rect_tiles(rect, a['dx'], a['dy'])
        return rect, False
    if op == 'gfx.copy_sprite':
        spr = m.gfx_get_sprite(a['id'], a['tile_width'], a['tile_height'])
        m.gfx_set_sprite(a['dest'], spr, a['tile_x_offset'],
                         a['tile_y_offset'])
        return spr, False
    if op == 'gfx.set_sprite':
        return m.gfx_set_sprite(kw['id'], kw['sprite'],
                                kw.get('tile_x_offset', 0),
                                kw.get('tile_y_offset', 0)), False
    return getattr(m, sec + '_' + meth)(**kw), False


POSITIONAL = {
    'gfx.get_sprite': ('id', 'tile_width', 'tile_height'),
    'gfx.set_sprite': ('id', 'sprite', 'tile_x_offset', 'tile_y_offset'),
    'map.get_cell': ('x', 'y'),
    'map.set_cell': ('x', 'y', 'val'),
    'map.get_rect_tiles': ('x', 'y', 'width', 'height'),
    'map.set_rect_tiles': ('rect', 'x', 'y'),
    'map.get_rect_pixels': ('x', 'y', 'width', 'height'),
    'gff.get_flags': ('id', 'flags'), 'gff.set_flags': ('id', 'flags'),
    'gff.clear_flags': ('id', 'flags'), 'gff.reset_flags': ('id', 'flags'),
    'sfx.get_note': ('id', 'note'),
    'sfx.set_note': ('id', 'note', 'pitch', 'waveform', 'volume', 'effect'),
    'sfx.get_properties': ('id',),
    'sfx.set_properties': ('id', 'editor_mode', 'note_duration', 'loop_start',
                           'loop_end'),
    'music.get_channel': ('id', 'channel'),
    'music.set_channel': ('id', 'channel', 'pattern'),
    'music.get_properties': ('id',),
    'music.set_properties': ('id', 'begin', 'end', 'stop'),
}


class ArgumentModified(Exception):
    """A setter changed the data structure it was given."""


def _check_args_untouched(op, passed, original, a):
    kind = a.get('rows_as') or ('bytearray' if a.get('as_bytearray')
                                else 'list')
    if kind in ('iter', 'gen', 'reused-buffer', 'shared-stream'):
        return            # one-shot iterators are consumed by design
    now = [list(r) for r in passed]
    if now != [list(r) for r in original]:
        raise ArgumentModified(
            '%s modified the rows it was given: %r -> %r' % (
                op, [list(r) for r in original][:4], now[:4]))


def _rows(rows, a):
    """The documented argument type is 'an iterable of iterables': lists,
    bytearrays, tuples, one-shot iterators and generators are all legal."""
    kind = a.get('rows_as') or ('bytearray' if a.get('as_bytearray')
                                else 'list')
    if kind == 'bytearray':
        return [bytearray(r) for r in rows]
    if kind == 'tuple':
        return tuple(tuple(r) for r in rows)
    if kind == 'iter':
        return [iter(list(r)) for r in rows]
    if kind == 'gen':
        return ((v for v in r) for r in rows)
    if kind in ('array-H', 'array-B', 'memoryview-H', 'memoryview-B',
                'memoryview-i'):
        # typed arrays and (zero-copy) views of them: items are ints, though
        # wider than a byte in memory
        import array
        code = kind[-1]
        arrs = [array.array(code, list(r)) for r in rows]
        if kind.startswith('memoryview'):
            return [memoryview(x) for x in arrs]
        return arrs
    if kind == 'shared-stream':
        # rows cut one after the other from one stream of values (a file
        # being read, a decoder): row n+1 starts where row n ended
        import itertools
        rows = [list(r) for r in rows]
        stream = iter([v for r in rows for v in r])
        return [itertools.islice(stream, len(r)) for r in rows]
    if kind == 'reused-buffer':
        # a scanline producer that refills and yields one and the same buffer
        def scan():
            buf = bytearray()
            for r in rows:
                buf[:] = bytes(r)
                yield buf
        return scan()
    return [list(r) for r in rows]


def _real(g, op, a):
    """Apply op to the real game -> result (may raise).  With a['pos'] the
    arguments are passed positionally in the documented order (as far as they
    are given contiguously), otherwise by keyword."""
    sec, meth = op.split('.')
    if a.get('pos') and op in POSITIONAL:
        kw = {k: v for k, v in a.items() if k not in ('as_bytearray', 'pos',
                                                      'rows_as')}
        if op == 'gfx.set_sprite':
            kw['sprite'] = _rows(kw['sprite'], a)
        if op == 'map.set_rect_tiles':
            kw['rect'] = _rows(kw['rect'], a)
        args = []
        for name in POSITIONAL[op]:
            if name in kw:
                args.append(kw.pop(name))
            else:
                break
        r = getattr(getattr(g, sec), meth)(*args, **kw)
        if op == 'gfx.set_sprite':
            _check_args_untouched(op, args[1] if len(args) > 1
                                  else kw.get('sprite'), a['sprite'], a)
        if op == 'map.set_rect_tiles':
            _check_args_untouched(op, args[0], a['rect'], a)
        return r
    if op == RAW_OP:
        if a.get('own_section'):
            data = getattr(g, a['own_section']).to_bytes()
            if a.get('own_view'):
                data = memoryview(data)[a['own_view'][0]:a['own_view'][1]]
        else:
            data = core.rnd_bytes(a['data_seed'], a['len'])
        if a.get('as_bytearray') and not a.get('own_section'):
            data = bytearray(data)
        if a.get('as_memoryview') and not a.get('own_section'):
            data = memoryview(bytearray(data))
        if a.get('view_of_bytes') and not a.get('own_section'):
            pre, post = a['view_of_bytes']
            big = core.rnd_bytes(a['data_seed'] + 1, pre) + bytes(data) + \
                core.rnd_bytes(a['data_seed'] + 2, post)
            data = memoryview(big)[pre:pre + a['len']]
        addr = a['start_addr'] - _SUBCLASS_BASE[0]
        # (a caller's subclass adds its base to the address it is given)
        if a.get('positional', True):
            return g.write_cart_data(data, addr)
        return g.write_cart_data(data=data, start_addr=addr)
    if op == COPY_OP:
        rect = g.map.get_rect_tiles(a['x'], a['y'], a['width'], a['height'])
        snapshot = _norm(rect)
        g.map.set_rect_tiles(rect, a['dx'], a['dy'])
        return snapshot
    if op == 'gfx.copy_sprite':
        spr = g.gfx.get_sprite(a['id'], a['tile_width'], a['tile_height'])
        snapshot = _norm(spr)
        g.gfx.set_sprite(a['dest'], spr, a['tile_x_offset'],
                         a['tile_y_offset'])
        if _norm(spr) != snapshot:
            raise ArgumentModified(
                'gfx.set_sprite modified the sprite object it was given '
                '(rows as returned by get_sprite)')
        return snapshot
    target = getattr(g, sec)
    kw = {k: v for k, v in a.items() if k not in ('as_bytearray', 'pos')}
    kw.pop('rows_as', None)
    if op == 'gfx.set_sprite':
        spr = _rows(kw.pop('sprite'), a)
        r = target.set_sprite(kw.pop('id'), spr, **kw)
        _check_args_untouched(op, spr, a['sprite'], a)
        return r
    if op == 'map.set_rect_tiles':
        rect = _rows(kw['rect'], a)
        r = target.set_rect_tiles(rect, kw['x'], kw['y'])
        _check_args_untouched(op, rect, a['rect'], a)
        return r
    return getattr(target, meth)(**kw)


_SUBCLASS_BASE = [0]


def _banked(g, base):
    """The game becomes an instance of a subclass, written by a caller, whose
    write_cart_data takes addresses relative to `base` and defers to the
    inherited method."""
    _SUBCLASS_BASE[0] = base
    if not base or getattr(type(g), '_picosim_banked', False):
        return g
    parent = type(g)

    class BankedGame(parent):
        _picosim_banked = True

        def write_cart_data(self, data, start_addr=0):
            return super().write_cart_data(data, start_addr + base)
    g.__class__ = BankedGame
    return g


POST_WRITE_PROBES = (
    ('map.get_cell', {'x': 0, 'y': 32}),
    ('map.get_cell', {'x': 127, 'y': 63}),
    ('map.get_cell', {'x': 5, 'y': 0}),
    ('gfx.get_sprite', {'id': 128}),
    ('gff.get_flags', {'id': 0, 'flags': 255}),
    ('music.get_channel', {'id': 0, 'channel': 0}),
    ('sfx.get_note', {'id': 0, 'note': 0}),
)


def _expand(sc):
    """Scenario as the executor and the model use it: compact row
    descriptions written out."""
    ops = []
    for o in sc['ops']:
        spr = o['args'].get('sprite')
        if isinstance(spr, dict):
            seed, wd, ht = spr['$rows']
            data = core.rnd_bytes(seed, wd * ht)
            o = dict(o, args=dict(o['args'], sprite=[
                [data[r * wd + c] & 15 for c in range(wd)]
                for r in range(ht)]))
        ops.append(o)
    return dict(sc, ops=ops)


def execute(sc):
    import warnings
    sc = _expand(sc)
    with warnings.catch_warnings():
        if sc['init'].get('warnings') == 'error':
            # a caller that runs with warnings promoted to errors (python -W
            # error, a test suite's filterwarnings=error)
            warnings.simplefilter('error')
        return _execute(sc)


def _execute(sc):
    res = core.new_result()
    ev = res['events']
    with world.World() as w:
        g, cart = _build_game(w, sc['init'])
        sub_base = sc['init'].get('subclass_base') or 0
        g = _banked(g, sub_base)
        if sub_base:
            core.bump(res['probes'], 'game-is-a-callers-subclass')
        m = models.MemModel(refcodec.flat_memory(cart))
        if _flat(g) != bytes(m.m):
            short = _sizes(g) != EXPECTED_SIZES and all(
                bytes(getattr(g, k)._data) == cart[k][:len(getattr(g, k)._data)]
                for k in refcodec.REGIONS)
            if short:
                # the bytes that are there are right, but a region is not as
                # long as the memory map says: every operation below is
                # still in contract, and is judged as usual
                core.bump(res['probes'], 'start-state-with-short-region')
            else:
                # the loader disagrees with the reference codec: a codec
                # question (C03/C04/C16), not this engine's; the run is
                # uninformative
                res['informative'] = False
                ev.append(('init-mismatch',))
                return res
        changed_any = False
        # a second game built the same way must stay as it is (no sharing of
        # buffers between instances), and so must this game's label
        if sc['init'].get('bystander') == 'reload' and \
                sc['init']['mode'] in ('p8', 'png'):
            # the very same file loaded a second time
            g2, _cart2 = _build_game(w, sc['init'])
            core.bump(res['probes'], 'bystander-loaded-from-the-same-file')
        else:
            g2, _cart2 = _build_game(w, dict(sc['init'], mode='bytes')
                                     if sc['init']['mode'] != 'empty'
                                     else sc['init'])
        if sc['init'].get('bystander') == 'clone':
            # built from this game's own bytes: must still be independent
            from pico8.gfx.gfx import Gfx
            from pico8.gff.gff import Gff
            from pico8.map.map import Map
            from pico8.sfx.sfx import Sfx
            from pico8.music.music import Music
            g2.gfx = Gfx.from_bytes(g.gfx.to_bytes(), version=33)
            g2.map = Map.from_bytes(g.map.to_bytes(), version=33, gfx=g2.gfx)
            g2.gff = Gff.from_bytes(g.gff.to_bytes(), version=33)
            g2.music = Music.from_bytes(g.music.to_bytes(), version=33)
            g2.sfx = Sfx.from_bytes(g.sfx.to_bytes(), version=33)
        bystander0 = _flat(g2)
        caller_buffers = []
        originals = []
        label0 = bytes(g.label._data) if getattr(g, 'label', None) else None
        retained = []
        donor_active = False
        for step, o in enumerate(sc['ops']):
            op, a = o['op'], o['args']
            prop = 'C18' if op == RAW_OP else 'C17'
            ec = _edge_class(op, a)
            core.bump(res['ops'], op)
            if a.get('rows_as') == 'shared-stream':
                core.bump(res['probes'], 'rows-cut-from-one-shared-stream')
            if a.get('view_of_bytes') and not a.get('own_section'):
                core.bump(res['probes'], 'payload-is-a-slice-of-a-view-of-bytes')
            before = bytes(m.m)
            exc = None
            real = mres = None
            rejected = False
            if op == CLI_OP:
                # picotool's command line is used in the same process (its
                # global flags stay in force afterwards, as they do in
                # picotool itself); the cart in memory is not involved
                from pico8 import tool
                name = 'cli%d.%s' % (step, 'p8' if a['fmt'] == 'p8'
                                     else 'p8.png')
                other = refcodec.make_cart(code=b'cli_marker=1\n')
                w.put(name, refcodec.encode_any(name, other))
                try:
                    tool.main(a['argv'] + [w.p(name)])
                    core.bump(res['probes'], 'cli-call-in-between:' +
                              a['argv'][0])
                except BaseException as e:
                    exc = e if isinstance(e, Exception) else None
                mres, rejected, real = None, False, None
            elif op == DEEPCOPY_OP:
                # the history continues on a deep copy; the original must
                # stay as it is from here on
                import copy
                try:
                    original = g
                    g = copy.deepcopy(g)
                    originals.append((step, original, _flat(original)))
                    core.bump(res['probes'], 'continued-on-deepcopy')
                except Exception as e:
                    exc = e
                mres, rejected, real = None, False, None
            elif op == SHALLOW_OP:
                # copy.copy of the map section (put in the old one's place)
                # or of the game: whether the copy shares its buffers with
                # the original or not, it holds the same cart
                import copy
                try:
                    if a['what'] == 'map':
                        g.map = copy.copy(g.map)
                    else:
                        g = copy.copy(g)
                    core.bump(res['probes'], 'continued-on-shallow-copy-of-' +
                              a['what'])
                except Exception as e:
                    exc = e
                mres, rejected, real = None, False, None
            elif op == REPLACE_OP and a.get('from') == 'donor':
                # the map section object of another live game takes the place
                # of this game's (what `p8tool build --map` does); the other
                # game keeps using it too
                g.map = g2.map
                donor_active = True
                m.m[refcodec.REGION_ADDR['map']:
                    refcodec.REGION_ADDR['map'] +
                    refcodec.REGION_SIZE['map']] = bytes(g2.map._data)
                core.bump(res['probes'], 'map-section-taken-from-another-game')
                mres, rejected, real = None, False, None
            elif op == REPLACE_OP:
                # the public attributes of a Game may be assigned: a new
                # section object takes the place of the old one
                from pico8.gfx.gfx import Gfx
                from pico8.gff.gff import Gff
                from pico8.map.map import Map
                from pico8.sfx.sfx import Sfx
                from pico8.music.music import Music
                sec = a['section']
                data = bytearray(core.rnd_bytes(
                    a['data_seed'], refcodec.REGION_SIZE[sec]))
                if sec == 'music':
                    for i in range(3, len(data), 4):
                        data[i] &= 0x7f
                arg = bytes(data) if a['from'] == 'bytes' else bytearray(data)
                addr = refcodec.REGION_ADDR[sec]
                try:
                    if sec == 'gfx':
                        g.gfx = Gfx.from_bytes(arg, version=33)
                        g.map._gfx = g.gfx      # as the loaders do
                    elif sec == 'map':
                        g.map = Map.from_bytes(arg, version=33, gfx=g.gfx)
                    elif sec == 'gff':
                        g.gff = Gff.from_bytes(arg, version=33)
                    elif sec == 'music':
                        g.music = Music.from_bytes(arg, version=33)
                    else:
                        g.sfx = Sfx.from_bytes(arg, version=33)
                    m.m[addr:addr + len(data)] = data
                    if isinstance(arg, bytearray):
                        caller_buffers.append((step, arg, bytes(arg)))
                except Exception as e:
                    exc = e
                mres, rejected, real = None, False, None
            elif op == RELOAD_OP:
                # the history continues on the cart as saved and loaded back
                # (.p8 cannot hold bit 7 of every fourth music byte: that
                # format is only used while the memory is representable)
                fmt = a['fmt']
                if fmt == 'p8' and any(m.m[models.MUSIC_A + i] & 0x80
                                       for i in range(3, 256, 4)):
                    fmt = 'png'
                name = 'reload%d.%s' % (step, 'p8' if fmt == 'p8'
                                        else 'p8.png')
                from pico8.game import file as pfile
                try:
                    pfile.to_file(g, w.p(name))
                    g = _banked(pfile.from_file(w.p(name)), sub_base)
                    core.bump(res['probes'], 'saved-and-reloaded-' + fmt)
                except Exception as e:
                    exc = e
                mres, rejected, real = None, False, None
            else:
                mres, rejected = _model(m, op, a)
                try:
                    real = _real(g, op, a)
                except Exception as e:       # picotool raised
                    exc = e
            flat = _flat(g)
            sizes = _sizes(g)
            outcome = 'ok'
            if rejected:
                core.bump(res['faults'], 'REJECTED-WRITE')
                core.bump(res['probes'], 'write-past-end-generated')
                if exc is None:
                    outcome = 'not-rejected'
                    core.violation(
                        res, prop, 'C18:write_cart_data:not-rejected',
                        'C18|write_cart_data|past-end accepted',
                        'write of %d bytes at 0x%x passes 0x4300 but did not '
                        'raise' % (a['len'], a['start_addr']), step)
                elif flat != before or sizes != EXPECTED_SIZES:
                    outcome = 'rejected-but-modified'
                    core.violation(
                        res, prop, 'C18:write_cart_data:rejected-modified',
                        'C18|write_cart_data|rejected write modified memory',
                        'rejected write changed memory; sizes %r' % (sizes,),
                        step)
                else:
                    outcome = 'rejected'
            elif exc is not None:
                outcome = 'raised:' + type(exc).__name__
                core.violation(
                    res, prop, '%s:%s:raised' % (prop, op.split('.')[1]),
                    '%s|%s|%s|raised %s' % (prop, op, ec,
                                            type(exc).__name__),
                    'in-contract call %s(%s) raised %s' % (
                        op, _brief(a), world.describe_exc(exc, w)), step)
            else:
                if sizes != EXPECTED_SIZES:
                    outcome = 'size-changed'
                    core.violation(
                        res, prop, '%s:%s:size' % (prop, op.split('.')[1]),
                        '%s|%s|%s|region size changed' % (prop, op, ec),
                        '%s(%s): region sizes now %r, expected %r' % (
                            op, _brief(a), sizes, EXPECTED_SIZES), step)
                elif flat != bytes(m.m):
                    outcome = 'memory-mismatch'
                    diff = [i for i in range(len(flat))
                            if flat[i] != m.m[i]]
                    core.violation(
                        res, prop, '%s:%s:memory' % (prop, op.split('.')[1]),
                        '%s|%s|%s|memory differs from model' % (prop, op, ec),
                        '%s(%s): %d bytes differ from the model, first at '
                        '0x%04x (real %02x, model %02x)' % (
                            op, _brief(a), len(diff), diff[0],
                            flat[diff[0]], m.m[diff[0]]), step)
                elif _norm(real) != _norm(mres):
                    outcome = 'return-mismatch'
                    core.violation(
                        res, prop, '%s:%s:return' % (prop, op.split('.')[1]),
                        '%s|%s|%s|return value differs from model' % (
                            prop, op, ec),
                        '%s(%s) returned %s, model predicts %s' % (
                            op, _brief(a), _brief(_norm(real)),
                            _brief(_norm(mres))), step)
                elif op == RAW_OP and not donor_active:
                    # post-condition of the write as seen through getters
                    # (not with a map taken from another game: its lower rows
                    # are that game's sprite memory)
                    for pop, pa in POST_WRITE_PROBES:
                        m2, _ = _model(m, pop, dict(pa))
                        try:
                            r2 = _real(g, pop, dict(pa))
                        except Exception as e:
                            r2 = 'raised ' + type(e).__name__
                        if _norm(r2) != _norm(m2):
                            outcome = 'post-write-getter-mismatch'
                            core.violation(
                                res, 'C18', 'C18:write_cart_data:getter',
                                'C18|write_cart_data|%s|getter %s disagrees '
                                'after write' % (ec, pop),
                                'after write_cart_data(%s): %s(%s) -> %s, '
                                'model %s' % (_brief(a), pop, pa,
                                              _brief(_norm(r2)),
                                              _brief(_norm(m2))), step)
                            break
            if op in (DEEPCOPY_OP, RELOAD_OP) or (
                    op == SHALLOW_OP and a['what'] == 'game'):
                # the history continues on another Game object
                label0 = bytes(g.label._data) if getattr(
                    g, 'label', None) else None
            elif outcome == 'ok' and label0 is not None and \
                    getattr(g, 'label', None) and \
                    bytes(g.label._data) != label0:
                # the label is a sixth buffer of the same kind as the sprite
                # sheet; no accessor and no cart address reaches it
                outcome = 'label-modified'
                core.violation(
                    res, prop, '%s:label-modified' % prop,
                    '%s|%s|edit leaked into the label' % (prop, op),
                    '%s(%s) changed the label image, which no operation '
                    'and no cart address 0x0000-0x42ff addresses' % (
                        op, _brief(a)), step)
                label0 = bytes(g.label._data)
            if outcome == 'ok' and '.get_' in op and \
                    isinstance(real, (list, tuple)):
                if step % 2 and isinstance(real, list):
                    # the caller owns what a getter returns and may scribble
                    # on it: nothing of the cart (and no later result) may
                    # change because of that
                    try:
                        for row in real:
                            if isinstance(row, bytearray):
                                for i in range(len(row)):
                                    row[i] = 0xee      # (not an involution)
                        core.bump(res['probes'], 'scribbled-on-returned-value')
                    except Exception:
                        pass
                    if _flat(g) != bytes(m.m):
                        core.violation(
                            res, 'C17', 'C17:%s:result-aliases-memory' %
                            op.split('.')[1],
                            'C17|%s|writing to the returned value changed '
                            'the cart' % op,
                            'modifying the list returned by %s(%s) changed '
                            'cart memory' % (op, _brief(a)), step)
                else:
                    retained.append((step, op, a, real, _norm(real)))
            if bytes(m.m) != before:
                changed_any = True
            if ec not in ('-', 'inside', 'upper') and op != RAW_OP:
                core.bump(res['probes'], 'edge:%s:%s' % (op, ec))
            if op == RAW_OP:
                for tag in ec.split('+'):
                    if tag.startswith(('start@', 'end@')):
                        core.bump(res['probes'], 'raw:' + tag)
            res['states'].append('%s|%s|%s' % (op, ec, outcome))
            ev.append((step, op, ec, outcome,
                       core.sha(flat)[:16]))
            if res['violations']:
                break
        if not res['violations']:
            for (step, op, a, obj, was) in retained:
                if _norm(obj) != was:
                    core.violation(
                        res, 'C17', 'C17:%s:result-aliases-memory' %
                        op.split('.')[1],
                        'C17|%s|returned value changed after later edits' % op,
                        'the value returned by %s(%s) at step %d changed '
                        'after later operations: it was %s, it is now %s' % (
                            op, _brief(a), step, _brief(was),
                            _brief(_norm(obj))), step)
                    break
        if not res['violations']:
            for (step, orig, was) in originals:
                if _flat(orig) != was:
                    core.violation(
                        res, 'C17', 'C17:deepcopy-shares-memory',
                        'C17|a deep copy shares cart memory with its original',
                        'the game that was deep-copied at step %d changed '
                        'when its copy was edited' % step)
                    break
        if not res['violations']:
            for (step, buf, was) in caller_buffers:
                if bytes(buf) != was:
                    core.violation(
                        res, 'C17' if sc['ops'][-1]['op'] != RAW_OP
                        else 'C18', 'C17:caller-buffer-modified',
                        'C17|section shares storage with the caller\'s '
                        'buffer',
                        'the bytearray handed to from_bytes at step %d was '
                        'modified by later operations on the cart' % step)
                    break
        if not res['violations']:
            donor = any(o['op'] == REPLACE_OP and
                        o['args'].get('from') == 'donor' for o in sc['ops'])
            if _flat(g2, skip_map=donor) != _cut_map(bystander0, donor):
                # (a map section that both games use is, of course, changed
                # for both by writes to the map region)
                core.violation(
                    res, 'C18' if all(o['op'] in (RAW_OP, REPLACE_OP)
                                      for o in sc['ops'])
                    else 'C17', 'C17:other-game-modified',
                    'C17|edits leaked into another Game instance',
                    'a second Game built the same way changed although no '
                    'operation addressed it (history: %s)' % _brief(
                        [o['op'] for o in sc['ops']]))
            elif label0 is not None and getattr(g, 'label', None) and \
                    bytes(g.label._data) != label0:
                core.violation(
                    res, 'C17', 'C17:label-modified',
                    'C17|edits leaked into the label',
                    'the label bytes changed although no operation addresses '
                    'the label (history: %s)' % _brief(
                        [o['op'] for o in sc['ops']]))
        res['nontrivial'] = changed_any or bool(res['violations'])
    return res


def _brief(a):
    try:
        s = core.dumps(a)
    except TypeError:
        s = repr(a)
    return s if len(s) < 400 else s[:400] + '...'


# ---------------------------------------------------------------------------
# shrinking

def shrink(sc):
    ops = sc['ops']
    for cand in core.ddmin_list(ops):
        yield dict(sc, ops=cand)
    # simplify the start state
    init = sc['init']
    if init['mode'] != 'bytes':
        yield dict(sc, init=dict(init, mode='bytes'))
    for k, v in init['regions'].items():
        if v != 'zero':
            yield dict(sc, init=dict(init, regions=dict(init['regions'],
                                                         **{k: 'zero'})))
    # simplify arguments of each op
    for i, o in enumerate(ops):
        a = o['args']
        for cand in _shrink_args(o['op'], a):
            yield dict(sc, ops=ops[:i] + [dict(o, args=cand)] + ops[i + 1:])


def _shrink_args(op, a):
    if op == 'gfx.set_sprite' and isinstance(a['sprite'], dict):
        seed, wd, ht = a['sprite']['$rows']
        for w2, h2 in ((wd, ht // 2), (wd // 2, ht), (wd, ht - 1),
                       (wd - 1, ht)):
            if w2 > 0 and h2 > 0:
                yield dict(a, sprite={'$rows': [seed, w2, h2]})
    elif op == 'gfx.set_sprite':
        spr = a['sprite']
        for c in core.ddmin_list(spr):
            yield dict(a, sprite=c)
        for j, row in enumerate(spr):
            for c in core.ddmin_list(row):
                yield dict(a, sprite=spr[:j] + [c] + spr[j + 1:])
        for k in ('tile_x_offset', 'tile_y_offset'):
            if a.get(k):
                yield {kk: v for kk, v in a.items() if kk != k}
        if a.get('as_bytearray'):
            yield dict(a, as_bytearray=False)
        flat = [[1 if v != 16 else 16 for v in r] for r in spr]
        if flat != spr:
            yield dict(a, sprite=flat)
    elif op == 'map.set_rect_tiles':
        rect = a['rect']
        for c in core.ddmin_list(rect):
            yield dict(a, rect=c)
        for j, row in enumerate(rect):
            for c in core.ddmin_list(row):
                yield dict(a, rect=rect[:j] + [c] + rect[j + 1:])
        one = [[1] * len(r) for r in rect]
        if one != rect:
            yield dict(a, rect=one)
    elif op in ('gfx.get_sprite',):
        for k in ('tile_width', 'tile_height'):
            if a.get(k, 1) > 1:
                yield dict(a, **{k: a[k] - 1})
    elif op in ('map.get_rect_tiles', 'map.get_rect_pixels'):
        for k in ('width', 'height'):
            if a.get(k, 1) > 1:
                yield dict(a, **{k: a[k] - 1})
    elif op == RAW_OP:
        if a['len'] > 1:
            # keep the end fixed, move the start forward; and vice versa
            half = a['len'] // 2
            yield dict(a, start_addr=a['start_addr'] + half,
                       len=a['len'] - half)
            yield dict(a, len=a['len'] - half)
            yield dict(a, start_addr=a['start_addr'] + 1, len=a['len'] - 1)
            yield dict(a, len=a['len'] - 1)
        if a.get('as_bytearray'):
            yield dict(a, as_bytearray=False)
    else:
        for k in ('pitch', 'waveform', 'volume', 'effect', 'editor_mode',
                  'note_duration', 'loop_start', 'loop_end', 'pattern',
                  'begin', 'end', 'stop'):
            if a.get(k) is not None:
                yield dict(a, **{k: None})


# ---------------------------------------------------------------------------
# check configuration

def plan(prop, tier):
    if tier == 'quick':
        return {'runs': 30000 if prop == 'C17' else 12000}
    return {'runs': 400000 if prop == 'C17' else 200000,
            'wall_cap': 6 * 3600, 'opt_runs': 20000}


RULE = {
    'C17': 'seeded histories of 1-30 in-contract accessor calls (swarm-style '
           'subsets of 19 accessor kinds, arguments biased to ids 0/15/16/240/'
           '255 and to rectangles crossing the right/bottom edge by 0, 1 and '
           'many cells, TRANSPARENT pixels, ragged rows, None fields) on a '
           'real Game with seeded region contents (from_bytes, or loaded from '
           'a reference-encoded .p8/.p8.png); after every call: getter result '
           '== MemModel, concatenated region bytes == MemModel byte for byte, '
           'region sizes unchanged, no exception. distinct = distinct tuples '
           '(operation, edge class, outcome); a run is non-trivial iff at '
           'least one byte of model memory changed',
    'C18': 'all (start,end) pairs with both ends within +-2 bytes of the six '
           'region boundaries (enumerated, one single-write run each) plus '
           'seeded histories of 1-30 raw writes (boundary pairs, empty, '
           'whole-memory, past-0x4300, random) optionally interleaved with '
           'accessors; after every write: region bytes == flat MemModel, '
           'sizes unchanged, seven getter probes agree, past-end writes raise '
           'and change nothing. distinct = distinct tuples (operation, '
           'boundary-alignment class, outcome); non-trivial iff model memory '
           'changed',
}


RULE_MORE = {'C17': " Added in the build rounds: calls positional or by keyword; rows as lists, bytearrays, tuples, one-shot iterators, generators, one reused buffer; runs of consecutive sprite ids; origins beyond the edge; copy operations feeding a getter result into a setter (overlapping); save/reload (.p8/.p8.png), copy.deepcopy and section replacement in the middle of a history; p8tool commands (also --debug) run in between; start states from from_bytes, from reference-encoded .p8 (sections omitted / reordered) and .p8.png, and as make_empty_game() delivers it; after every history: returned lists unchanged (or scribbled on by the harness without effect), setter arguments unchanged, a bystander game (fresh or cloned from this game's bytes), caller-owned buffers, the label and every deep-copied original unchanged. Round 6: the label compared after every step; whole-sheet sprites (128x128 opaque rows as bytearrays) and whole-sheet read-and-write-back; start states of data versions 0-41; a quarter of the runs with warnings promoted to errors (a documented clipping call that warns then raises). Round 7: rows as typed arrays and memoryviews of them (item sizes 1, 2, 4); start states loaded from .p8 files whose sections end early, as PICO-8 writes them; the bystander game loaded from the very same file. Round 8: the history continued on copy.copy of the map section (put in the old one's place) or of the game; the game as an instance of a caller's subclass.", 'C18': " Added in the build rounds: lengths with a meaning of their own (0x8000, 0x10000), payloads that are one of the cart's own live region buffers, section replacement, deepcopy, save/reload and p8tool calls interleaved with the writes; bystander game, caller buffers and label compared at the end. Round 6: the label compared after every write (it is a sixth buffer of the sprite sheet's class, which no cart address reaches); payloads that are memoryviews of a part of one of the cart's own live buffers, written where they overlap their source across a region boundary; memoryview payloads of unrelated buffers. Round 7: start addresses that need more than 16 bits (all must be rejected); start states from .p8 files whose sections end early; bystander loaded from the same file. Round 8: payloads that are a slice of a memoryview of a larger immutable bytes object; the map section object taken over from another live game before the writes (that game, apart from the shared map, must stay as it is); the game as an instance of a caller's subclass whose write_cart_data takes bank-relative addresses and defers to the inherited method (a spanning write must apply the subclass's translation once)."}
