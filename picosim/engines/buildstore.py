"""Engine `buildstore` (C13): `p8tool build` as a state transition on a store
of cart files, checked against a reference cart model after every step, with
failing builds interleaved."""

import itertools
import os

from picosim import core, refcodec, world

NAME = 'buildstore'
PROPS = ('C13',)

SECTIONS = ('lua', 'gfx', 'gff', 'map', 'sfx', 'music')
EXT = {'p8': '.p8', 'png': '.p8.png'}
N_SOURCES = 3

_BLANK = {}


def blank_label_upper():
    """Upper six bits of the bundled blank label picture."""
    if 'u' not in _BLANK:
        path = os.path.join(core.REPO, 'pico8', 'game', 'empty_023.p8.png')
        if not os.path.exists(path):
            import pico8.game.formatter.p8png as m
            path = m.EMPTY_LABEL_FNAME
        with open(path, 'rb') as fh:
            w, h, px = refcodec.png_read_rgba(fh.read())
        _BLANK['u'] = refcodec.upper_bits(px)
    return _BLANK['u']


# ---------------------------------------------------------------------------
# generation

def source_spec(i, seed):
    """Every source has unique region bytes and unique marker code, so each
    section read back is attributable to exactly one source."""
    return {
        # (data versions on either side of the ones that changed the file
        # format's text encoding; glyph characters in the code)
        'version': (33, 8, 41, 15, 33, 16)[(seed + i) % 6],
        'code': core.enc_bytes(
            b'-- source %d\nsrc%d_marker=%d\nfunction f%d() return %d end\n'
            % (i, i, seed % 100000, i, i) +
            (b'g%d="\x8b\x99\xe3\x81" -- \x83\n' % i
             if (seed + i) % 2 else b'')),
        'regions': {k: seed * 16 + j for j, k in enumerate(refcodec.REGIONS)},
        'label': {'p8_seed': seed + 7, 'png_seed': seed + 8},
    }


def out_prior_spec(rng, tag):
    return {
        'version': rng.choice([16, 29, 33, 8, 5, 15]),
        'code': core.enc_bytes(b'-- prior %s\nprior_%s=%d\n' % (
            tag.encode(), tag.encode(), rng.randint(1, 99999)) + rng.choice(
                [b'', b'', b'pg="\x87\x94" -- \x80\n'])),
        'regions': {k: rng.choice(['zero'] + [rng.randint(1, 10**9)] * 5)
                    for k in refcodec.REGIONS},
        'label': rng.choice([None, {'p8_seed': rng.randint(1, 10**6)}]),
        'png_label_seed': rng.randint(1, 10**6),
    }


SRC_CHOICES = ('none', 'p8', 'png', 'empty')


def gen_assign(rng, outs, target):
    a = {}
    for sec in SECTIONS:
        c = rng.choice(SRC_CHOICES)
        if c in ('p8', 'png'):
            r = rng.random()
            if r < 0.12 and len(outs) > 1:
                other = [o for o in outs if o != target][0]
                a[sec] = ['out', other]
            elif r < 0.2:
                a[sec] = ['out', target]          # OUT as its own source
            elif r < 0.28:
                # the same cart name reached through a symbolic link and
                # `..`: a different file than the lexically normalised name
                a[sec] = ['p8alt', rng.randrange(N_SOURCES)]
            elif r < 0.36:
                # a file whose name contains `$NAME` of a set variable
                a[sec] = ['p8odd', rng.randrange(N_SOURCES)]
            else:
                a[sec] = [c, rng.randrange(N_SOURCES)]
        elif c == 'none':
            a[sec] = ['none']
        else:
            a[sec] = ['empty']
    if rng.random() < 0.15:
        a['lua'] = ['luafile']
    elif rng.random() < 0.1:
        a['lua'] = ['luafile2']      # same tokens, other quote style
    elif rng.random() < 0.08:
        a['lua'] = ['p8inc']         # a symlinked cart with an #include
    for sec in ('gfx', 'gff', 'map'):
        if a[sec][0] == 'p8' and rng.random() < 0.25:
            a[sec] = ['p8sparse']    # a .p8 that omits its all-zero sections
    for sec in ('gfx', 'gff', 'map', 'sfx', 'music'):
        if a[sec][0] in ('p8', 'png') and rng.random() < 0.12:
            a[sec] = ['zero', a[sec][0]]   # a cart whose every byte is zero
    return a


FAIL_KINDS = ('conflict', 'missing-file', 'wrong-ext-source',
              'wrong-ext-out', 'enoent', 'lua-ext-for-data',
              'conflict-late', 'write-fault', 'cart-in-wrong-ext',
              'cart-in-wrong-ext', 'empty-string-arg', 'directory-arg')


def generate(rng, prop, tier, index):
    two = rng.random() < 0.4
    outs = {'a': {'fmt': rng.choice(['p8', 'png']),
                  'prior': rng.choice(['absent', 'cart', 'cart'])}}
    if two:
        outs['b'] = {'fmt': 'png' if outs['a']['fmt'] == 'p8' else 'p8',
                     'prior': rng.choice(['absent', 'cart'])}
    for tag, o in outs.items():
        if o['prior'] == 'cart':
            o['spec'] = out_prior_spec(rng, tag)
    nsteps = rng.choice([1, 1, 2, 2, 3, 4])
    steps = []
    for i in range(nsteps):
        target = rng.choice(sorted(outs))
        st = {'target': target, 'assign': gen_assign(rng, sorted(outs),
                                                     target),
              'flags': rng.choice([[], [], ['-q'], ['--debug']])}
        if rng.random() < 0.4:
            st['shuffle'] = rng.randrange(10**6)
        if i and rng.random() < 0.25:
            # before this step every source cart written so far is rewritten
            # in place with other contents, its timestamps restored
            st['rewrite_sources'] = True
        if rng.random() < 0.33:
            st['fail'] = {'kind': rng.choice(FAIL_KINDS),
                          'section': rng.choice(SECTIONS),
                          'k': rng.randint(0, 40)}
        steps.append(st)
    if rng.random() < 0.06:
        # rebuild after an edit that changes nothing but the spelling of the
        # program (quote style): OUT must follow the source
        none = {sec: ['none'] for sec in SECTIONS}
        first, second = rng.choice([('luafile', 'luafile2'),
                                    ('luafile2', 'luafile')])
        steps = [{'target': 'a', 'assign': dict(none, lua=[first]),
                  'flags': []},
                 {'target': 'a', 'assign': dict(none, lua=[second]),
                  'flags': []}]
    extra = {}
    if rng.random() < 0.05:
        # the same source named by two builds, rewritten in between
        none = {sec: ['none'] for sec in SECTIONS}
        sec = rng.choice(SECTIONS[1:])
        src = [rng.choice(['png', 'png', 'p8']), rng.randrange(N_SOURCES)]
        steps = [{'target': 'a', 'assign': dict(none, **{sec: src}),
                  'flags': []},
                 {'target': rng.choice(sorted(outs)), 'flags': [],
                  'assign': dict(none, **{sec: src}),
                  'rewrite_sources': True}]
    if rng.random() < 0.06:
        # the same build applied to two OUTs through one arguments object
        # (only the output name is changed in between)
        outs = {'a': outs['a'],
                'b': {'fmt': rng.choice(['p8', 'png']), 'prior': 'absent'}}
        asg = gen_assign(rng, ['a', 'b'], 'a')
        for sec in SECTIONS:
            if asg[sec][0] == 'out':
                asg[sec] = ['none']
        asg[rng.choice(SECTIONS)] = ['empty']
        steps = [{'target': 'a', 'assign': asg, 'flags': []},
                 {'target': 'b', 'assign': asg, 'flags': [],
                  'reuse_args': True}]
        extra['shared_namespace'] = True
    if rng.random() < 0.35:
        extra.update({'argstyle': 'rel',
                      'cwd': rng.choice(['root', 'in', 'out'])})
    elif rng.random() < 0.1:
        # the working directory has been removed; all names are absolute
        extra.update({'argstyle': 'abs', 'cwd': 'deleted'})
    if rng.random() < 0.3:
        extra['decoys'] = True
    if rng.random() < 0.15:
        extra['warmup'] = True
    return {**extra, 'engine': NAME, 'seed': rng.randint(1, 10**6), 'outs': outs,
            'luafile': core.enc_bytes(
                # (sometimes the file's first bytes are glyph characters: the
                # bytes of a UTF-8 byte order mark, in this or another order)
                rng.choice([b'', b'', b'', b'\xbf\xbb_count=3\n',
                            b'\xef\xbb\xbfz=1\n', b'\xbbq=2 ']) +
                b'-- main\nmain_marker=%d\ns1="hello" s2=\'there\'\n'
                b'function _draw() end\n'
                % rng.randint(1, 99999)),
            'steps': steps}


def single_config(assign6, out_fmt, prior, seed, luafile_variant=False):
    """One single-step configuration of the enumerated space."""
    rng = core.derive_rng(seed, 'C13-enum-content', 0)
    outs = {'a': {'fmt': out_fmt,
                  'prior': 'absent' if prior == 'absent' else 'cart'}}
    if prior != 'absent':
        spec = out_prior_spec(rng, 'a')
        spec['label'] = {'p8_seed': rng.randint(1, 10**6)} \
            if prior == 'cart-label' else None
        outs['a']['spec'] = spec
    assign = {}
    for sec, c in zip(SECTIONS, assign6):
        if c in ('p8', 'png'):
            assign[sec] = [c, rng.randrange(N_SOURCES)]
        else:
            assign[sec] = [c]
    return {'engine': NAME, 'seed': seed, 'outs': outs,
            'luafile': core.enc_bytes(b'main_marker=1\n'),
            'steps': [{'target': 'a', 'assign': assign, 'flags': []}],
            'enumerated': True}


def enumerated(prop, tier, seed):
    """Thorough: all 4^6 assignments x {absent, existing without label,
    existing with label} x {.p8, .p8.png} once each; contents seeded."""
    if tier != 'thorough':
        return []
    out = []
    n = 0
    for out_fmt in ('p8', 'png'):
        for prior in ('absent', 'cart', 'cart-label'):
            for assign6 in itertools.product(SRC_CHOICES, repeat=6):
                out.append(single_config(assign6, out_fmt, prior,
                                         seed * 100003 + n))
                n += 1
    return out


def plan(prop, tier):
    if tier == 'quick':
        return {'runs': 1400, 'wall_cap': 900}
    return {'runs': 12000, 'wall_cap': 6 * 3600, 'opt_runs': 1500}


# ---------------------------------------------------------------------------
# model

def empty_model():
    c = refcodec.make_cart(version=33, code=b'')
    c['label'] = None
    return c


INC_MAIN = b'inc_main=1\n#include lib.lua\ninc_tail=2\n'
INC_LIB_LINK = b'lib_next_to_the_link=1\n'
INC_LIB_TARGET = b'lib_next_to_the_link_target=1\n'


def other_quotes(code):
    """The same program with its string literals in the other quote style."""
    out = bytearray(code)
    for i, c in enumerate(out):
        if c == 0x22:
            out[i] = 0x27
        elif c == 0x27:
            out[i] = 0x22
    return bytes(out)


_SPARSE = {}


def sparse_cart():
    """A cart whose gfx, gff and map are all zero (PICO-8 leaves such
    sections out of the .p8 file altogether)."""
    if 'c' not in _SPARSE:
        _SPARSE['c'] = refcodec.cart_from_spec({
            'version': 33, 'code': core.enc_bytes(b'sparse_marker=1\n'),
            'regions': {'gfx': 'zero', 'gff': 'zero', 'map': 'zero',
                        'sfx': 4242, 'music': 4343}})
    return _SPARSE['c']


def zero_cart():
    """A cart with every region all zero (which is not what an `empty`
    sound section holds)."""
    if 'z' not in _SPARSE:
        _SPARSE['z'] = refcodec.cart_from_spec({
            'version': 33, 'code': core.enc_bytes(b'zero_marker=1\n'),
            'regions': {k: 'zero' for k in refcodec.REGIONS}})
    return _SPARSE['z']


_ALT = {}


def alt_cart(i):
    """The cart stored as alt/s<i>.p8 (reached as in/link/../s<i>.p8)."""
    if i not in _ALT:
        _ALT[i] = refcodec.cart_from_spec({
            'version': 33,
            'code': core.enc_bytes(b'-- alt %d\nalt%d_marker=1\n' % (i, i)),
            'regions': {k: 7000 + i * 16 + j
                        for j, k in enumerate(refcodec.REGIONS)}})
    return _ALT[i]


def norm_code(b):
    return b.rstrip(b'\n')


def predict(prev, assign, srcs, outs_model, luafile, srcs0=None):
    """StoreModel prediction of OUT after a successful build."""
    new = dict(prev) if prev is not None else empty_model()
    empty = empty_model()
    for sec in SECTIONS:
        key = 'code' if sec == 'lua' else sec
        a = assign[sec]
        if a[0] == 'none':
            continue
        if a[0] == 'empty':
            new[key] = empty[key]
        elif a[0] == 'luafile':
            new[key] = luafile
        elif a[0] == 'luafile2':
            new[key] = other_quotes(luafile)
        elif a[0] == 'p8inc':
            new[key] = INC_MAIN.replace(b'#include lib.lua\n', INC_LIB_LINK)
        elif a[0] == 'p8sparse':
            new[key] = sparse_cart()[key]
        elif a[0] == 'zero':
            new[key] = zero_cart()[key]
        elif a[0] in ('p8', 'png'):
            new[key] = srcs[a[1]][key]
        elif a[0] == 'p8odd':
            new[key] = (srcs0 or srcs)[a[1]][key]
        elif a[0] == 'p8alt':
            new[key] = alt_cart(a[1])[key]
        elif a[0] == 'out':
            other = outs_model[a[1]]
            new[key] = other[key]
    return new


def compare(model, got, out_fmt, had_prev, prev):
    """-> list of (what, detail) mismatches between model and decoded OUT."""
    bad = []
    for k in refcodec.REGIONS:
        if got[k] != model[k]:
            d = [i for i in range(len(model[k])) if got[k][i] != model[k][i]]
            bad.append((k, '%d bytes differ, first at %d (got %02x, want '
                        '%02x)' % (len(d), d[0], got[k][d[0]],
                                   model[k][d[0]])))
    if norm_code(got['code']) != norm_code(model['code']):
        bad.append(('lua', 'code is %r..., want %r...' % (
            got['code'][:60], model['code'][:60])))
    if out_fmt == 'png':
        want = prev['label']['png_upper'] if had_prev else blank_label_upper()
        if got['label']['png_upper'] != want:
            bad.append(('label', 'PNG picture differs from the %s in the '
                        'upper six bits' % ('previous OUT' if had_prev
                                            else 'bundled blank label')))
    else:
        gl = got['label']['p8'] if got.get('label') else None
        pl = prev['label']['p8'] if (had_prev and prev.get('label')) else None
        if pl is not None:
            if gl != pl:
                bad.append(('label', '__label__ section %s' % (
                    'dropped' if gl is None else 'changed')))
        else:
            # nothing to keep: no label or a blank one are both fine
            if gl is not None and any(gl):
                bad.append(('label', 'a non-blank __label__ appeared'))
    return bad


# ---------------------------------------------------------------------------
# execution

def _src_rel(fmt, i):
    return 'in/s%d%s' % (i, EXT[fmt])


def _out_rel(tag, outs):
    return 'out/%s%s' % (tag, EXT[outs[tag]['fmt']])


def execute(sc):
    from pico8 import tool
    from pico8.game import file as pfile
    res = core.new_result()
    ev = res['events']
    outs = sc['outs']
    srcs = [refcodec.cart_from_spec(source_spec(i, sc['seed'] + i))
            for i in range(N_SOURCES)]
    srcs0 = srcs
    luafile = core.dec_bytes(sc['luafile'])
    if sc['seed'] % 4 == 1 and not luafile.rstrip().endswith(b'q=2'):
        # round 8: the program ends with a return statement at its root (a
        # library module developed with a test game loop around it)
        luafile = luafile.rstrip(b'\n') + b'\nreturn main_marker\n'
        core.bump(res['probes'], 'lua-source-ends-with-a-root-level-return')
    with world.World(env={'SND': 'drums'}) as w:
        w.mkdir('in')
        w.mkdir('out')
        written = set()

        def need(rel, data_fn):
            if rel not in written:
                w.put(rel, data_fn())
                written.add(rel)

        # how file arguments are spelled, and from where
        if sc.get('cwd') == 'deleted':
            cwd_rel = ''
            w.mkdir('gone')
            os.chdir(w.p('gone'))
            os.rmdir(w.p('gone'))
            core.bump(res['probes'], 'working-directory-deleted')
        else:
            cwd_rel = {'root': '', 'in': 'in',
                       'out': 'out'}[sc.get('cwd', 'root')]
            os.chdir(w.p(cwd_rel))

        def A(rel):
            if sc.get('argstyle', 'abs') == 'abs' or \
                    sc.get('cwd') == 'deleted':
                return w.p(rel)
            return os.path.relpath(w.p(rel), w.p(cwd_rel))
        if sc.get('decoys'):
            # same-named carts in the PICO-8 carts folders under $HOME: never
            # named by any argument, so they must never be used
            decoy = refcodec.cart_from_spec({
                'code': {'$txt': 'decoy_marker=1\n'},
                'regions': {k: 900 + j for j, k in
                            enumerate(refcodec.REGIONS)}})
            for cd in ('home/.lexaloffle/pico-8/carts',
                       'home/Library/Application Support/pico-8/carts',
                       'home/AppData/Roaming/pico-8/carts'):
                for nm in ('nothere.p8', 's0.p8', 's1.p8', 's2.p8',
                           'thing.p8', 'in/nothere.p8', 'in/s0.p8',
                           'in/s1.p8', 'in/s2.p8'):
                    w.put(cd + '/' + nm, refcodec.encode_p8(decoy))
                for nm in ('s0.p8.png', 's1.p8.png', 's2.p8.png',
                           'in/s0.p8.png'):
                    w.put(cd + '/' + nm, refcodec.encode_p8png(decoy))
        if sc.get('warmup'):
            # an unrelated build with require() ran earlier in this process
            w.put('warm/main.lua', b'warm_main=1\nrequire("w0")\n')
            w.put('warm/w0.lua', b'warm_w0=1\n')
            try:
                wrc = tool.main(['build', w.p('warm/out.p8'), '--lua',
                                 w.p('warm/main.lua')])
            except BaseException:
                wrc = 'raised'
            core.bump(res['probes'], 'warmup-build-with-require' if wrc == 0
                      else 'warmup-build-failed')
            w.err.seek(0)
            w.err.truncate(0)
        outs_model = {}
        for tag in sorted(outs):
            o = outs[tag]
            if o['prior'] == 'cart':
                spec = dict(o['spec'])
                cart = refcodec.cart_from_spec(spec)
                rel = _out_rel(tag, outs)
                if o['fmt'] == 'png':
                    px = refcodec.label_pixels(spec['png_label_seed'])
                    w.put(rel, refcodec.encode_p8png(cart, px))
                    cart['label'] = {'png_upper': refcodec.upper_bits(px)}
                else:
                    w.put(rel, refcodec.encode_p8(cart))
                    cart['label'] = ({'p8': cart['label']['p8']}
                                     if cart.get('label') else None)
                outs_model[tag] = cart
            else:
                outs_model[tag] = None
        changed_any = False
        generation = 0
        shared_ns = None
        for si, st in enumerate(sc['steps']):
            tag = st['target']
            out_fmt = outs[tag]['fmt']
            out_rel = _out_rel(tag, outs)
            assign = st['assign']
            if st.get('reuse_args') and si > 0 and sc.get('shared_namespace'):
                assign = sc['steps'][si - 1]['assign']   # same object reused
            fail = st.get('fail')
            if st.get('rewrite_sources') and si:
                generation += 1
                srcs = [refcodec.cart_from_spec(source_spec(
                    i, sc['seed'] + i + 7919 * generation))
                    for i in range(N_SOURCES)]
                for fmt in ('p8', 'png'):
                    for i in range(N_SOURCES):
                        rel = _src_rel(fmt, i)
                        if rel in written and os.path.isfile(w.p(rel)):
                            w.put_keep_times(rel, refcodec.encode_any(
                                rel, srcs[i]))
                            core.bump(res['probes'],
                                      'source-rewritten-with-old-timestamps')
            argv = list(st.get('flags') or []) + ['build', A(out_rel)]
            probe_rel = None
            write_plan = None
            uses_missing_out = False
            for sec in SECTIONS:
                a = assign[sec]
                if a[0] in ('p8', 'png'):
                    rel = _src_rel(a[0], a[1])
                    cart = srcs[a[1]]
                    need(rel, lambda rel=rel, cart=cart:
                         refcodec.encode_any(rel, cart))
                    argv += ['--' + sec, A(rel)]
                elif a[0] == 'p8alt':
                    # in/link -> ../alt/sub, so in/link/../sN.p8 is alt/sN.p8
                    w.mkdir('alt/sub')
                    if not os.path.lexists(w.p('in/link')):
                        os.symlink('../alt/sub', w.p('in/link'))
                    need('alt/s%d.p8' % a[1], lambda i=a[1]:
                         refcodec.encode_p8(alt_cart(i)))
                    need(_src_rel('p8', a[1]), lambda i=a[1]:
                         refcodec.encode_p8(srcs[i]))
                    spelled = A('in/link') + '/../s%d.p8' % a[1]
                    argv += ['--' + sec, spelled]
                elif a[0] == 'luafile2':
                    need('in/main2.lua', lambda: other_quotes(luafile))
                    argv += ['--lua', A('in/main2.lua')]
                elif a[0] == 'p8sparse':
                    need('in/sparse.p8', lambda: refcodec.encode_p8(
                        sparse_cart(), {'omit_empty': True}))
                    argv += ['--' + sec, A('in/sparse.p8')]
                elif a[0] == 'zero':
                    rel = 'in/zero' + EXT[a[1]]
                    need(rel, lambda rel=rel: refcodec.encode_any(
                        rel, zero_cart()))
                    argv += ['--' + sec, A(rel)]
                elif a[0] == 'p8inc':
                    # in/incdir/art.p8 is a symbolic link to alt2/art.p8; a
                    # lib.lua sits next to each of them.  The cart is named
                    # through the link, so the one next to the link counts.
                    w.mkdir('in/incdir')
                    w.mkdir('alt2')
                    need('alt2/art.p8', lambda: refcodec.encode_p8(
                        refcodec.make_cart(code=INC_MAIN)))
                    need('alt2/lib.lua', lambda: INC_LIB_TARGET)
                    need('in/incdir/lib.lua', lambda: INC_LIB_LINK)
                    if not os.path.lexists(w.p('in/incdir/art.p8')):
                        os.symlink('../../alt2/art.p8',
                                   w.p('in/incdir/art.p8'))
                    argv += ['--lua', A('in/incdir/art.p8')]
                elif a[0] == 'p8odd':
                    need('in/$SND-%d.p8' % a[1], lambda i=a[1]:
                         refcodec.encode_p8(srcs0[i]))
                    need('in/drums-%d.p8' % a[1], lambda:
                         refcodec.encode_p8(alt_cart(0)))
                    argv += ['--' + sec, A('in/$SND-%d.p8' % a[1])]
                elif a[0] == 'out':
                    if outs_model[a[1]] is None:
                        uses_missing_out = True
                    argv += ['--' + sec, A(_out_rel(a[1], outs))]
                elif a[0] == 'luafile':
                    need('in/main.lua', lambda: luafile)
                    argv += ['--lua', A('in/main.lua')]
                elif a[0] == 'empty':
                    argv += ['--empty-' + sec]
            expect_fail = uses_missing_out
            fkind = None
            if fail:
                fkind = fail['kind']
                sec = fail['section']
                if fkind in ('conflict', 'conflict-late'):
                    if fkind == 'conflict-late':
                        sec = 'music'
                    if assign[sec][0] in ('p8', 'png', 'out', 'luafile'):
                        argv += ['--empty-' + sec]
                    elif assign[sec][0] == 'empty':
                        need(_src_rel('p8', 0), lambda: refcodec.encode_p8(
                            srcs[0]))
                        argv += ['--' + sec, A(_src_rel('p8', 0))]
                    else:
                        need(_src_rel('p8', 0), lambda: refcodec.encode_p8(
                            srcs[0]))
                        argv += ['--' + sec, A(_src_rel('p8', 0)),
                                 '--empty-' + sec]
                    expect_fail = True
                elif fkind in ('missing-file', 'enoent'):
                    if assign[sec][0] in ('p8', 'png'):
                        # ENOENT: the named source disappears before the step
                        rel = _src_rel(assign[sec][0], assign[sec][1])
                        if os.path.exists(w.p(rel)):
                            os.unlink(w.p(rel))
                            written.discard(rel)
                        expect_fail = True
                    elif assign[sec][0] == 'none':
                        argv += ['--' + sec, A('in/nothere.p8')]
                        expect_fail = True
                    else:
                        fkind = None
                elif fkind == 'wrong-ext-source':
                    if assign[sec][0] == 'none':
                        need('in/thing.txt', lambda: refcodec.encode_p8(
                            srcs[0]))
                        argv += ['--' + sec, A('in/thing.txt')]
                        expect_fail = True
                    else:
                        fkind = None
                elif fkind == 'lua-ext-for-data':
                    if sec != 'lua' and assign[sec][0] == 'none':
                        need('in/main.lua', lambda: luafile)
                        argv += ['--' + sec, A('in/main.lua')]
                        expect_fail = True
                    else:
                        fkind = None
                elif fkind == 'cart-in-wrong-ext':
                    # a perfectly valid cart under a name that is not a cart
                    # name (also when --lua is given in the same command)
                    if sec != 'lua' and assign[sec][0] == 'none':
                        k = fail['k'] % 4
                        nm = ['in/cartcopy.lua', 'in/cartcopy.txt',
                              'in/cartcopy', 'in/cartcopy.png'][k]
                        need(nm, lambda k=k: refcodec.encode_p8(srcs[1])
                             if k != 3 else refcodec.encode_p8png(srcs[1]))
                        argv += ['--' + sec, A(nm)]
                        expect_fail = True
                    else:
                        fkind = None
                elif fkind == 'empty-string-arg':
                    if assign[sec][0] == 'none':
                        argv += ['--' + sec, '']
                        expect_fail = True
                    else:
                        fkind = None
                elif fkind == 'directory-arg':
                    if assign[sec][0] == 'none':
                        w.mkdir('in/adir.p8')
                        argv += ['--' + sec, A('in/adir.p8')]
                        expect_fail = True
                    else:
                        fkind = None
                elif fkind == 'wrong-ext-out':
                    probe_rel = out_rel + '.txt'
                    argv[argv.index(A(out_rel))] = A(probe_rel)
                    expect_fail = True
                elif fkind == 'write-fault':
                    write_plan = {'kind': 'W-ERR', 'k': fail['k'],
                                  'errno': 'EIO'}
            if st.get('shuffle') is not None:
                # options in another order, OUT not necessarily first
                head = argv[:argv.index('build') + 1]
                tail = argv[len(head):]
                groups = []
                i = 0
                while i < len(tail):
                    if tail[i].startswith('--') and \
                            not tail[i].startswith('--empty') and \
                            i + 1 < len(tail):
                        groups.append(tail[i:i + 2])
                        i += 2
                    else:
                        groups.append(tail[i:i + 1])
                        i += 1
                core.derive_rng(st['shuffle'], 'argv', 0).shuffle(groups)
                argv = head + [x for g_ in groups for x in g_]
            before = w.snap(out_rel)
            before_probe = w.snap(probe_rel) if probe_rel else None
            exc = None
            rc = None
            with world.EncoderRun(write_plan) as ctl:
                try:
                    if sc.get('shared_namespace') and hasattr(
                            tool, '_get_argparser'):
                        # a caller that drives the command's function itself
                        # and uses one arguments object for several OUTs
                        if st.get('reuse_args') and shared_ns is not None:
                            shared_ns.filename = A(out_rel)
                        else:
                            shared_ns = tool._get_argparser().parse_args(
                                args=argv)
                        rc = shared_ns.func(shared_ns)
                        core.bump(res['probes'], 'arguments-object-reused'
                                  if st.get('reuse_args') else
                                  'command-function-called-directly')
                    else:
                        rc = tool.main(argv)
                except BaseException as e:
                    exc = e
            failed = exc is not None or rc not in (0, None)
            after = w.snap(out_rel)
            core.bump(res['ops'], 'build')
            prev = outs_model[tag]
            had_prev = prev is not None
            outcome = 'ok'
            shape = ''.join(assign[s][0][0] for s in SECTIONS)
            if write_plan is not None:
                if ctl['fired']:
                    core.bump(res['faults'], 'W-ERR')
                    if before != after:
                        core.violation(
                            res, 'C11', 'C11:dest-changed-in-build',
                            'C11|build|write-fault|dest changed',
                            'build failed by write fault changed OUT', si)
                    outcome = 'write-fault'
                    expect_fail = True
                else:
                    write_plan = None     # fault index beyond the stream
            if write_plan is None and expect_fail:
                core.bump(res['faults'], 'ARG:' + (fkind or 'missing-out'))
                if not failed:
                    outcome = 'bad-args-accepted'
                    core.violation(
                        res, 'C13', 'C13:bad-arguments-accepted',
                        'C13|%s|accepted' % (fkind or 'missing-out-source'),
                        'step %d: `p8tool %s` has unusable arguments (%s) '
                        'but reported success' % (
                            si, w.unsubst(' '.join(argv)),
                            fkind or 'source OUT does not exist'), si)
                elif before != after:
                    outcome = 'failed-but-out-changed'
                    core.violation(
                        res, 'C13', 'C13:failed-build-changed-out',
                        'C13|%s|OUT changed' % (fkind or 'missing-out-source'),
                        'step %d: `p8tool %s` failed (%s) but OUT changed: '
                        '%s -> %s' % (si, w.unsubst(' '.join(argv)), fkind,
                                      _sd(before), _sd(after)), si)
                elif probe_rel and w.snap(probe_rel) != before_probe:
                    outcome = 'failed-but-wrong-path-written'
                    core.violation(
                        res, 'C13', 'C13:wrong-extension-out-written',
                        'C13|wrong-ext-out|file created',
                        'step %d: OUT name with unsupported extension was '
                        'written' % si, si)
                else:
                    outcome = 'rejected'
            elif write_plan is None:
                # a good build: must succeed and produce the predicted cart
                if failed:
                    outcome = 'good-build-failed'
                    core.violation(
                        res, 'C13', 'C13:valid-build-failed',
                        'C13|valid-build-failed|%s|%s' % (
                            out_fmt, type(exc).__name__ if exc else 'rc'),
                        'step %d: `p8tool %s` should succeed but %s%s' % (
                            si, w.unsubst(' '.join(argv)),
                            world.describe_exc(exc, w) if exc
                            else 'returned %r' % rc,
                            ' (stderr: %s)' % w.unsubst(
                                w.err.getvalue()[-200:]) if not exc else ''),
                        si)
                else:
                    model = predict(prev, assign, srcs, outs_model, luafile,
                                    srcs0)
                    try:
                        got = refcodec.decode_any(out_rel, after[2] or b'')
                    except refcodec.RefCodecError as e:
                        got = None
                        outcome = 'out-undecodable'
                        core.violation(
                            res, 'C13', 'C13:out-undecodable',
                            'C13|undecodable|%s' % out_fmt,
                            'step %d: OUT is not a decodable %s cart: %s' % (
                                si, out_fmt, e), si)
                    if got is not None:
                        bad = compare(model, got, out_fmt, had_prev, prev)
                        if bad:
                            outcome = 'mismatch:' + ','.join(
                                b[0] for b in bad)
                            what, detail = bad[0]
                            core.violation(
                                res, 'C13', 'C13:section-mismatch:' + what,
                                'C13|mismatch|%s|%s|src=%s|prev=%s' % (
                                    what, out_fmt,
                                    assign.get(what, ['-'])[0],
                                    'yes' if had_prev else 'no'),
                                'step %d: `p8tool %s`: OUT %s: %s '
                                '[assignment %s, OUT %s]' % (
                                    si, w.unsubst(' '.join(argv)), what,
                                    detail, core.dumps(assign),
                                    'existed' if had_prev else 'absent'), si)
                        else:
                            # OUT as picotool itself reads it back
                            rb = None
                            try:
                                g = pfile.from_file(w.p(out_rel))
                                pt = {k: bytes(getattr(g, k).to_bytes())
                                      for k in refcodec.REGIONS}
                                pt['lua'] = b''.join(g.lua.to_lines())
                                for k in refcodec.REGIONS:
                                    if pt[k] != model[k]:
                                        rb = (k, 'region differs from the '
                                              'one the arguments name')
                                        break
                                if rb is None and norm_code(pt['lua']) != \
                                        norm_code(model['code']):
                                    rb = ('lua', 'code is %r...' %
                                          pt['lua'][:60])
                            except Exception as e:
                                rb = ('load', 'raised ' +
                                      world.describe_exc(e, w))
                            if rb:
                                outcome = 'readback-mismatch:' + rb[0]
                                core.violation(
                                    res, 'C13', 'C13:readback-mismatch:' +
                                    rb[0],
                                    'C13|readback|%s|%s|src=%s' % (
                                        rb[0], out_fmt,
                                        assign.get(rb[0], ['-'])[0]),
                                    'step %d: `p8tool %s`: OUT read back '
                                    'with file.from_file: %s: %s (the '
                                    'reference reader finds OUT as '
                                    'predicted) [assignment %s]' % (
                                        si, w.unsubst(' '.join(argv)),
                                        rb[0], rb[1], core.dumps(assign)),
                                    si)
                            newm = dict(model)
                            newm['label'] = got['label'] if out_fmt == 'png' \
                                else (got.get('label'))
                            newm['version'] = got['version']
                            outs_model[tag] = newm
                            changed_any = True
                            if had_prev:
                                core.bump(res['probes'], 'built-over-existing-'
                                          + out_fmt)
                            if any(a[0] == 'out' for a in assign.values()):
                                core.bump(res['probes'], 'out-used-as-source')
            res['states'].append('%s|%s|%s|%s|%s' % (
                out_fmt, 'prev' if had_prev else 'new', shape,
                fkind or '-', outcome.split(':')[0]))
            ev.append((si, tag, out_fmt, shape, fkind, outcome,
                       core.sha(after[2] or b'')[:16]))
            if res['violations']:
                break
        res['nontrivial'] = changed_any or bool(res['violations'])
    return res


def _sd(s):
    if not s[0]:
        return 'absent'
    return '%d bytes sha %s' % (len(s[2] or b''), core.sha(s[2] or b'')[:10])


# ---------------------------------------------------------------------------
# shrinking

def shrink(sc):
    steps = sc['steps']
    for cand in core.ddmin_list(steps):
        if cand:
            yield dict(sc, steps=cand)
    if 'b' in sc['outs'] and all(
            st['target'] == 'a' and all(a != ['out', 'b']
                                        for a in st['assign'].values())
            for st in steps):
        yield dict(sc, outs={'a': sc['outs']['a']})
    for i, st in enumerate(steps):
        if st.get('fail'):
            yield dict(sc, steps=steps[:i] + [
                {k: v for k, v in st.items() if k != 'fail'}] + steps[i + 1:])
        if st.get('flags'):
            yield dict(sc, steps=steps[:i] + [dict(st, flags=[])] +
                       steps[i + 1:])
        for sec in SECTIONS:
            if st['assign'][sec] != ['none']:
                yield dict(sc, steps=steps[:i] + [dict(st, assign=dict(
                    st['assign'], **{sec: ['none']}))] + steps[i + 1:])
    for k in ('decoys', 'warmup', 'argstyle', 'cwd'):
        if sc.get(k):
            yield {kk: v for kk, v in sc.items() if kk != k}
    for tag, o in sc['outs'].items():
        if o['prior'] == 'cart':
            yield dict(sc, outs=dict(sc['outs'], **{tag: {
                'fmt': o['fmt'], 'prior': 'absent'}}))


RULE = {
    'C13': 'histories of 1-4 `p8tool build` invocations (tool.main) on a '
           'store seeded by the reference encoders: three source carts with '
           'unique region bytes and marker code in both formats, a .lua file, '
           'one or two OUT files (.p8 / .p8.png; absent or existing with / '
           'without label); each step assigns every section one of '
           '{unspecified, from .p8, from .p8.png, empty} (lua also from '
           '.lua; sources may be another OUT or OUT itself); about a third of '
           'the steps are failing steps (--X with --empty-X, missing file, '
           'ENOENT, wrong extension on source or OUT, .lua for a data section, '
           'write fault). After every step OUT is decoded by the reference '
           'decoder and compared per section and label with the StoreModel; a '
           'failing step must fail and leave OUT untouched. Thorough: all '
           '4^6 x 3 x 2 single-step configurations once each. distinct = '
           'distinct tuples (OUT format, OUT existed, six-letter assignment '
           'shape, failure kind, outcome); non-trivial iff a build changed '
           'the model state',
}

ASSUMPTIONS = {
    'C13': [
        'code is compared modulo trailing newlines (the raw PNG code reader '
        'appends one)',
        'when OUT had no label section to keep, no label or an all-zero one '
        'are both accepted',
        'contents avoid what the formats cannot hold (bit 7 of music byte 3, '
        'non-ASCII code, _update60, code >= 0x3d00 bytes)',
        'the reference decoder is the judge of OUT; picotool\'s own readback '
        'is recorded as a statistic only',
    ],
}

REQUIRED_PROBES = {
    ('C13', 'quick'): ['built-over-existing-p8', 'built-over-existing-png',
                       'out-used-as-source'],
}


def coverage_extra(prop, tier, agg, jobs_):
    n_enum = sum(1 for j in jobs_ if j.get('enum'))
    return {'exhaustive': False,
            'enumerated_configuration_space':
            'all 4^6 x 3 x 2 = 24576 single-step configurations' if
            tier == 'thorough' and n_enum >= 24576 else
            'sampled (thorough tier enumerates it)'}


RULE_MORE = {'C13': ' Added in the build rounds: relative arguments and three cwds, option order shuffled, same-named decoy carts in the PICO-8 carts folders under $HOME, a warm-up build with require() earlier in the process, sources reached through a symlink and `..`, file names containing $NAME of a set variable, valid carts under non-cart names, empty-string and directory arguments, .p8 sources that omit all-zero sections, a symlinked source cart with #include, and a directed history "rebuild after an edit that changes only the quote style". Round 6: OUT read back with picotool\'s own reader (file.from_file) must agree with the prediction too, not only the reference reader; sources and previous OUTs whose regions are all zero (distinct from the `empty` defaults of sfx and music); data versions 5-41 and glyph characters in source and previous code; one arguments object (tool\'s parser, then the command function) used for two OUTs with only the output name changed. Round 7: steps before which every source cart is rewritten in place with other contents and its previous timestamps; --lua files whose first bytes are glyph characters (the bytes of a UTF-8 byte order mark); a working directory that has been deleted (all names absolute). Round 8: .lua sources that end with a return statement at their root.'}
