"""Engine `pkggraph` (C14): `p8tool build --lua main.lua` over seeded package
graphs on the simulated store: traversal with the visited table, once-only
embedding, placement, stripping of top-level game-loop functions by position,
failure on a missing file or malformed require(), termination on cycles."""

import os
import re
import sys

from picosim import core, refcodec, world

NAME = 'pkggraph'
PROPS = ('C14',)

GAME_LOOP = ('_init', '_update', '_update60', '_draw')
DIRS = ('', 'lib/', 'lib/deep/', 'other/')
STEP_CAP = 6_000_000


# ---------------------------------------------------------------------------
# generation

class _Ids:
    def __init__(self):
        self.n = 0

    def next(self):
        self.n += 1
        return self.n


def _gen_body(rng, ids, reqs, is_main, gl_positions):
    """reqs: list of (pkg index, use_game_loop) this file must require."""
    items = []
    n = rng.choice([0, 1, 2, 3, 4, 6])
    kinds = ['m', 'm', 'ml', 'mt', 'mf', 'mfm', 'if', 'sif', 'cm', 'blank',
             'nested-gl', 'do', 'glprefix', 'glmember', 'mls']
    for _ in range(n):
        items.append({'t': rng.choice(kinds), 'id': ids.next()})
    for (pi, ugl) in reqs:
        items.insert(rng.randint(0, len(items)), {
            't': 'req', 'pkg': pi, 'ugl': ugl, 'id': ids.next(),
            'form': rng.choice(['stmt', 'stmt', 'local', 'table', 'infunc',
                                'arg', 'inif', 'inelse', 'inelseif',
                                'incond', 'inshortif', 'inwhile', 'infor',
                                'inforin', 'inrepeat', 'indo', 'callee',
                                'index', 'binop', 'method', 'nested-table',
                                'inlocalfunc', 'inanonfunc', 'ret-infunc'])})
    # game-loop function definitions at chosen positions
    for pos in gl_positions:
        gl = {'t': 'gl', 'name': rng.choice(GAME_LOOP), 'id': ids.next(),
              'inner': [ids.next() for _ in range(rng.choice([0, 1, 2]))],
              'oneline': rng.random() < 0.3}
        if pos == 'start':
            items.insert(0, gl)
        elif pos == 'end':
            items.append(gl)
        else:
            items.insert(rng.randint(1, max(1, len(items) - 1))
                         if len(items) > 1 else len(items), gl)
    if not is_main and rng.random() < 0.3:
        items.append({'t': 'ret', 'id': ids.next()})
    seps = []
    for i in range(len(items)):
        seps.append(rng.choice(['\n', '\n', '\n', '\n\n', ' ', ';', ' ; ']))
    return items, seps


def generate(rng, prop, tier, index):
    ids = _Ids()
    npk = rng.choice([0, 1, 1, 2, 2, 3, 4, 5, 6])
    pkgs = []
    for i in range(npk):
        name = 'p%d' % i
        if rng.random() < 0.18:
            # unusual but legal file names / require strings
            name += rng.choice(['.v2', '-x', ' sp', "'q", '"dq', '\\b',
                                '\\n1', '.lua', '%d', ']]x', 'a\\'])
        pk = {'name': name, 'dir': rng.choice(DIRS),
              'final_newline': rng.random() < 0.75}
        if rng.random() < 0.12:
            pk['crlf'] = True            # saved with CRLF line ends
        if rng.random() < 0.12 and '/' not in name:
            # lives in a directory of its own name: <name>/<name>.lua,
            # reachable through a load-path entry with two `?`
            pk['dir'] = ''
            pk['selfdir'] = True
        pkgs.append(pk)
    # edges: main -> some; package -> some (chains, diamonds, cycles, self)
    ugl = {i: (rng.random() < 0.25) for i in range(npk)}
    edges = {-1: []}
    for i in range(npk):
        edges[i] = []
    order = list(range(npk))
    if npk:
        # make every package reachable: a random spanning structure
        for i in order:
            parent = rng.choice([-1] + order[:i]) if i else -1
            edges[parent].append(i)
        extra = rng.choice([0, 0, 1, 2, 3])
        for _ in range(extra):
            a = rng.choice([-1] + order)
            b = rng.choice(order)          # may close a cycle or a self loop
            edges[a].append(b)
    for i in range(npk):
        pos = rng.choice([[], [], ['start'], ['middle'], ['end'],
                          ['start', 'end'], ['middle', 'middle']])
        items, seps = _gen_body(rng, ids, [(j, ugl[j]) for j in edges[i]],
                                False, pos)
        pkgs[i]['items'] = items
        pkgs[i]['seps'] = seps
    mitems, mseps = _gen_body(rng, ids, [(j, ugl[j]) for j in edges[-1]],
                              True, rng.choice([[], ['end'], ['start']]))
    # requires inside game-loop functions: to an extra package that nothing
    # else requires (its file may even be missing), or to an existing one
    for i in range(npk):
        for it in pkgs[i]['items']:
            if it['t'] == 'gl' and rng.random() < 0.25:
                if rng.random() < 0.6:
                    pkgs.append({'name': 'kit%d' % len(pkgs),
                                 'dir': pkgs[i]['dir'],
                                 'final_newline': True,
                                 'items': [{'t': 'm', 'id': ids.next()}],
                                 'seps': ['\n'],
                                 'hidden_missing': rng.random() < 0.4})
                    it['inner_req'] = len(pkgs) - 1
                else:
                    it['inner_req'] = rng.randrange(npk)
                it['inner_ugl'] = ugl.get(it['inner_req'], False)
    if rng.random() < 0.1:
        k = len(pkgs)
        pkgs.append({'name': 'v%d/mod' % k, 'dir': '', 'vendor': True,
                     'final_newline': True,
                     'items': [{'t': 'm', 'id': ids.next()}], 'seps': ['\n']})
        holder = rng.choice([-1] + list(range(npk))) if npk else -1
        target = mitems if holder == -1 else pkgs[holder]['items']
        tseps = mseps if holder == -1 else pkgs[holder]['seps']
        target.insert(0, {'t': 'req', 'pkg': k, 'ugl': False,
                          'id': ids.next(), 'form': 'stmt'})
        tseps.insert(0, '\n')
    lp_how = rng.choice(['default', 'default', 'arg', 'env', 'arg-abs'])
    sc = {'engine': NAME, 'pkgs': pkgs,
          'main': {'items': mitems, 'seps': mseps,
                   'final_newline': rng.random() < 0.85},
          'lua_path': lp_how,
          'out_fmt': rng.choice(['p8', 'p8', 'png']),
          'out_prior': rng.choice(['absent', 'absent', 'cart']),
          'cwd': rng.choice(['root', 'base']),
          'fault': None}
    r = rng.random()
    if npk and r < 0.12:
        sc['fault'] = {'kind': 'ENOENT', 'pkg': rng.randrange(npk)}
    elif npk and r < 0.17:
        sc['fault'] = {'kind': 'OPEN-TRANSIENT', 'pkg': rng.randrange(npk)}
    elif r < 0.29:
        sc['fault'] = {'kind': 'MALFORMED', 'where': rng.choice(
            [-1] + list(range(npk))), 'how': rng.choice(
            ['noarg', 'nonstring', 'badopt', 'badoptval', '3args',
             'optnottable', 'concat', 'ghost-highbyte',
             'ghost-highbyte-first'])}
    return sc


# ---------------------------------------------------------------------------
# rendering a scenario into files + the package-graph model

def _dir_of(sc, i):
    return 'proj/' + ('' if i == -1 else sc['pkgs'][i]['dir'])


def _file_of(sc, i):
    """Store-relative path of package i's file."""
    p = sc['pkgs'][i]
    if p.get('uplib'):
        # beside the project directory: `proj/../lib/` - which is another
        # directory physically than lexically when proj is a symbolic link
        return ('real/deep/lib/' if sc.get('proj_symlink') else 'lib/') + \
            p['name'] + '.lua'
    if p.get('vendor'):
        return 'proj/vendor/%s.lua' % p['name']
    if p.get('selfdir'):
        return 'proj/%s/%s.lua' % (p['name'], p['name'])
    return _dir_of(sc, i) + p['name'] + '.lua'


def _req_dir_of(sc, i):
    """The directory in which package i's own require() calls are
    resolved (the directory of its file)."""
    if i != -1 and sc['pkgs'][i].get('vendor'):
        return 'proj/vendor/%s/' % sc['pkgs'][i]['name'].split('/')[0]
    if i != -1 and sc['pkgs'][i].get('selfdir'):
        return 'proj/%s/' % sc['pkgs'][i]['name']
    return _dir_of(sc, i)


def _req_string(sc, frm, to):
    """The require string used in file `frm` for package `to`: the path of
    the package file relative to the requiring file's directory, without
    extension (resolved by the default `?;?.lua` or the custom path)."""
    if sc['pkgs'][to].get('selfdir') or sc['pkgs'][to].get('vendor') or \
            sc['pkgs'][to].get('uplib'):
        return None                  # by bare name through a load-path entry
    rel = os.path.relpath(_dir_of(sc, to) + sc['pkgs'][to]['name'],
                          _req_dir_of(sc, frm))
    if rel.startswith('..'):
        # not reachable with a relative string: reachable through the custom
        # load path only (lib root)
        return None
    return rel


def _item_text(sc, frm, it, lua_path_mode):
    i = it['id']
    t = it['t']
    if t == 'm':
        return 'mk_%d=%d' % (i, i)
    if t == 'ml':
        return 'local lv_%d=%d' % (i, i)
    if t == 'mt':
        return 'mk_%d={%d,"s%d",k=%d}' % (i, i, i, i)
    if t == 'mf':
        return 'function fn_%d(a) return a+%d end' % (i, i)
    if t == 'mfm':
        return 'function fn_%d()\n local z=%d\n return z\nend' % (i, i)
    if t == 'if':
        return 'if mk_0 then mk_%d=%d end' % (i, i)
    if t == 'sif':
        return 'if (mk_0) mk_%d=%d' % (i, i)
    if t == 'glyph':
        # a name that starts with glyph characters whose bytes are those of a
        # UTF-8 byte order mark (in this or another order)
        return ('\xbf\xbb_g%d=%d', '\xef\xbb\xbfg%d=%d', '\xbbq%d=%d')[
            i % 3] % (i, i)
    if t == 'cm':
        return '-- comment %d' % i
    if t == 'blank':
        return ''
    if t == 'do':
        return 'do local q=%d end' % i
    if t == 'nested-gl':
        return 'function fn_%d()\n function _draw() mk_%d=%d end\nend' % (
            i, i, i)
    if t == 'mls':
        return 'mk_%d=[[line one %d\nline two\n]]' % (i, i)
    if t == 'glprefix':
        # names that merely start with a game-loop function's name
        nm = ('_init2', '_updater', '_update600', '_drawn', '_draw_all',
              'x_init')[i % 6]
        return 'function %s() mk_%d=%d end' % (nm, i, i)
    if t == 'glmember':
        return 'function obj_%d._init() mk_%d=%d end' % (i % 3, i, i)
    if t == 'ret':
        return 'return %d' % i
    if t == 'gl':
        inner = ' '.join('mk_%d=%d' % (x, x) for x in it['inner'])
        if it.get('inner_req') is not None:
            # a require() inside the game-loop function (a library's self
            # test pulling in a test kit, say)
            inner += ' local tk_%d=require(%s%s)' % (
                i, lua_quote(req_name(sc, frm, it['inner_req']), i),
                ',{use_game_loop=true}' if it.get('inner_ugl') else '')
        if it['oneline']:
            return 'function %s() %s end' % (it['name'], inner)
        return 'function %s()\n %s\nend' % (it['name'], inner)
    if t == 'req':
        s = req_name(sc, frm, it['pkg']) + ('.lua' if it.get('alias') else '')
        opt = ',{use_game_loop=true}' if it['ugl'] else (
            ',{use_game_loop=false}' if i % 7 == 3 else '')
        call = 'require(%s%s)' % (lua_quote(s, i), opt)
        f = it['form']
        if f == 'stmt':
            return call
        if f == 'local':
            return 'local r_%d=%s' % (i, call)
        if f == 'table':
            return 'mk_%d={%s}' % (i, call)
        if f == 'infunc':
            return 'function fn_%d() return %s end' % (i, call)
        if f == 'arg':
            return 'mk_%d=type(%s)' % (i, call)
        forms = {
            'inif': 'if mk_0 then %s end',
            'inelse': 'if mk_0 then mk_%d=%d else %%s end' % (i, i),
            'inelseif': 'if mk_0 then mk_%d=%d elseif mk_1 then %%s end' % (
                i, i),
            'incond': 'if %s then mk_{i}={i} end'.replace('{i}', str(i)),
            'inshortif': 'if (mk_0) %s',
            'inwhile': 'while mk_0 do %s break end',
            'infor': 'for q=1,2 do %s end',
            'inforin': 'for k,v in pairs(mk_0) do %s end',
            'inrepeat': 'repeat %s until true',
            'indo': 'do %s end',
            'callee': 'mk_{i}=%s.field'.replace('{i}', str(i)),
            'index': 'mk_0[%s]={i}'.replace('{i}', str(i)),
            'binop': 'mk_{i}={i}+#%s'.replace('{i}', str(i)),
            'method': 'mk_{i}=%s:method({i})'.replace('{i}', str(i)),
            'nested-table': 'mk_{i}={a={b={%s}}}'.replace('{i}', str(i)),
            'inlocalfunc': 'local function lf_{i}() local z=%s end'.replace(
                '{i}', str(i)),
            'inanonfunc': 'mk_{i}=function() return %s end'.replace(
                '{i}', str(i)),
            'ret-infunc': 'function fn_{i}() if mk_0 then return %s end end'
            .replace('{i}', str(i)),
        }
        if f in forms:
            return forms[f] % call
    if t == 'bad':
        return it['text']
    raise core.HarnessError('item ' + t)


def lua_quote(s, salt):
    """A Lua string literal for s; the quoting style varies with salt."""
    style = salt % 5
    if style == 4 and ']]' not in s and '\n' not in s and \
            not s.startswith('@'):
        return '[[' + s + ']]'
    if style == 3 and not s.startswith('@'):
        return "'" + s.replace('\\', '\\\\').replace("'", "\\'") + "'"
    return '"' + s.replace('\\', '\\\\').replace('"', '\\"') + '"'


_ESC = {'n': '\n', 't': '\t', 'a': '\a', 'b': '\b', 'f': '\f', 'r': '\r',
        'v': '\v', '\\': '\\', '"': '"', "'": "'"}


def lua_unescape(s):
    """Decode the escapes of a quoted Lua string literal body."""
    out = []
    i = 0
    while i < len(s):
        c = s[i]
        if c == '\\' and i + 1 < len(s):
            n = s[i + 1]
            if n.isdigit():
                j = i + 1
                while j < len(s) and j < i + 4 and s[j].isdigit():
                    j += 1
                out.append(chr(int(s[i + 1:j]) & 0xff))
                i = j
                continue
            out.append(_ESC.get(n, n))
            i += 2
            continue
        out.append(c)
        i += 1
    return ''.join(out)


def req_name(sc, frm, to):
    s = _req_string(sc, frm, to)
    if s is None:
        # reachable only through the load path rooted at proj/: the scenario
        # then uses a load path with an absolute or main-relative entry
        s = '@' + ('' if (sc['pkgs'][to].get('selfdir') or
                          sc['pkgs'][to].get('vendor') or
                          sc['pkgs'][to].get('uplib'))
                   else sc['pkgs'][to]['dir']) + sc['pkgs'][to]['name']
    return s


LINE_SCOPED = ('sif', 'cm')


def render(sc, frm):
    f = sc['main'] if frm == -1 else sc['pkgs'][frm]
    out = []
    items = f['items']
    for k, it in enumerate(items):
        text = _item_text(sc, frm, it, sc['lua_path'])
        out.append(text)
        if k < len(items) - 1:
            sep = f['seps'][k]
            nxt = items[k + 1]
            if it['t'] in LINE_SCOPED or it['t'] == 'blank' or \
                    (it['t'] == 'req' and it.get('form') == 'inshortif') or \
                    nxt['t'] == 'blank' or it['t'] == 'ret':
                sep = '\n'
            # a call statement followed by `(`-less items is fine; a space
            # separator between two statements is plain Lua
            out.append(sep)
    body = ''.join(out)
    if f['final_newline'] and body:
        body += '\n'
    return body


def strip_ws_comments(text):
    """Comment-, whitespace- and `;`-free text.  Statement separators are
    dropped too: where a statement is stripped the statement leaves it open
    whether its separator goes with it (`a;;b` and `a;b` are the same
    program)."""
    # the contents of long strings are data, not layout: keep them exactly
    text = re.sub(r'\[\[(.*?)\]\]',
                  lambda m: '[[' + m.group(1).encode('latin-1').hex() + ']]',
                  text, flags=re.S)
    text = re.sub(r'--[^\n]*', '', text)
    return re.sub(r'[\s;]+', '', text)


def expected_block(sc, i, stripped):
    """Whitespace- and comment-free text of package i as it must appear in
    the built cart (token-for-token for this restricted statement language),
    with top-level game-loop functions removed when `stripped`."""
    f = sc['pkgs'][i]
    parts = []
    items = f['items']
    for k, it in enumerate(items):
        if it['t'] == 'gl' and stripped:
            continue
        parts.append(_item_text(sc, i, it, sc['lua_path']))
    text = '\n'.join(parts)
    if f.get('crlf'):
        text = text.replace('\n', '\r\n')
    return strip_ws_comments(text)


# ---------------------------------------------------------------------------
# execution

# the code of the cart that OUT holds before the build
PRIOR_CODES = (
    'prior_marker=1\n',
    '-- my game\n-- by someone\nprior_marker=1\n',
    '--[[ my game\n  second line of the title ]]\n--[[ by\n someone ]]\n'
    'prior_marker=1\n',
    '--[==[ my game\nsecond line ]==]\nprior_marker=1\n',
    'function _update() end\nfunction _draw() end\nrequire("p0")\n',
)

LOADER_RE = re.compile(r'function\s+require\s*\(')
HEADER_RE = re.compile(
    r'package\s*\.\s*_c\s*\[\s*(?:"((?:[^"\\]|\\.)*)"|'
    r"'((?:[^'\\]|\\.)*)')"
    r'\s*\]\s*=\s*function\s*\(\s*\)')


def _hname(m):
    return lua_unescape(m.group(1) if m.group(1) is not None else m.group(2))


def _needs_root_path(sc):
    if any(p.get('vendor') or p.get('selfdir') or p.get('uplib')
           for p in sc['pkgs']):
        return True
    return _needs_root_path0(sc)


def _needs_root_path0(sc):
    for frm in [-1] + list(range(len(sc['pkgs']))):
        f = sc['main'] if frm == -1 else sc['pkgs'][frm]
        for it in f['items']:
            if it['t'] == 'req' and _req_string(sc, frm, it['pkg']) is None:
                return True
    return False


def _lua_path_value(sc, w):
    """The load path of the run.  Strings starting with '@' (packages not
    below the requiring file) are resolved by an entry rooted at proj/."""
    how = sc['lua_path']
    if how in ('default',) and not _needs_root_path(sc):
        return None, None
    absroot = w.p('proj') + '/'
    if how == 'arg-abs' or how == 'default':
        val = '?;?.lua;%s?.lua' % absroot
    else:
        val = '?.lua;?;%s?.lua' % absroot
    if any(p.get('selfdir') for p in sc['pkgs']):
        val += ';%s?/?.lua' % absroot
    if any(p.get('vendor') for p in sc['pkgs']):
        val += ';%svendor/?.lua' % absroot
    if any(p.get('uplib') for p in sc['pkgs']):
        val += ';../lib/?.lua'
    return ('env' if how == 'env' else 'arg'), val


def _file_bytes(sc, i):
    """What is stored in package i's file (CRLF line ends if the package
    says so; the contents of long strings then contain CRLF too, exactly as
    an editor on that platform would save them)."""
    text = _fix_at(render(sc, i))
    if sc['pkgs'][i].get('crlf'):
        text = text.replace('\n', '\r\n')
    return text.encode('latin-1')


def _fix_at(text):
    return text.replace('"@', '"')


def model_traverse(sc, w, lp_value):
    """DFS as documented: packages are remembered by require string; the
    first encountered require() of a name resolves and loads it."""
    table = []          # [(name, pkg index, stripped)]
    seen = {}
    path = lp_value or '?;?.lua'

    def resolve(name, frm):
        base = w.p(_req_dir_of(sc, frm))
        for entry in path.split(';'):
            cand = entry.replace('?', name)
            if not cand.startswith('/'):
                cand = os.path.join(base, cand)
            if os.path.isfile(cand):
                return cand
        return None

    def visit(frm, stripped=False):
        f = sc['main'] if frm == -1 else sc['pkgs'][frm]
        for it in f['items']:
            if it['t'] == 'bad':
                return ('malformed', it['text'])
            if it['t'] == 'gl' and it.get('inner_req') is not None:
                if stripped:
                    continue        # stripped together with its function
                it = {'t': 'req', 'pkg': it['inner_req'],
                      'ugl': bool(it.get('inner_ugl'))}
            if it['t'] != 'req':
                continue
            name = req_name(sc, frm, it['pkg']).lstrip('@') + (
                '.lua' if it.get('alias') else '')
            if name in seen:
                continue
            target = resolve(name, frm)
            if target is None:
                return ('missing', name)
            # which package file is it?
            idx = None
            for j, p in enumerate(sc['pkgs']):
                # (by identity: a name with `..` behind a symbolic link is
                # another file than its lexical normalisation)
                fj = w.p(_file_of(sc, j))
                if os.path.isfile(fj) and os.path.samefile(fj, target):
                    idx = j
            if idx is None:
                return ('unknown-file', name)
            seen[name] = idx
            table.append((name, idx, not it['ugl']))
            r = visit(idx, stripped=not it['ugl'])
            if r is not None:
                return r
        return None
    err = visit(-1, stripped=False)
    return table, err


def execute(sc):
    from pico8 import tool
    res = core.new_result()
    ev = res['events']
    fault = sc.get('fault')
    fk = fault['kind'] if fault else None
    with world.World(env={'HOME': '$ROOT/home'}) as w:
        if sc.get('proj_symlink'):
            # the project directory is a symbolic link to a directory with
            # another parent
            w.mkdir('real/deep/proj')
            os.symlink('real/deep/proj', w.p('proj'))
            for p in sc['pkgs']:
                if p.get('uplib'):
                    w.put('lib/%s.lua' % p['name'],
                          b'beside_the_link_not_its_target=1\n')
            core.bump(res['probes'], 'project-directory-is-a-symlink')
        w.mkdir('proj')
        w.mkdir('out')
        w.mkdir('home')
        sc2 = sc
        if fk == 'MALFORMED':
            sc2 = _with_malformed(sc)
        how, lp_value = _lua_path_value(sc2, w)
        for i, p in enumerate(sc2['pkgs']):
            if fk == 'ENOENT' and fault['pkg'] == i:
                continue
            if p.get('hidden_missing'):
                continue       # only named inside a game-loop function
            w.put(_file_of(sc2, i), _file_bytes(sc2, i))
        for p in sc2['pkgs']:
            if p.get('vendor'):
                # an extension-less file named like the package's directory,
                # next to every file that may require it
                first = p['name'].split('/')[0]
                for d in set(_req_dir_of(sc2, j) for j in
                             [-1] + list(range(len(sc2['pkgs'])))):
                    if not d.startswith('proj/vendor/') and \
                            not os.path.lexists(w.p(d + first)):
                        w.put(d + first, b'vfile=1\n')
        main_text = _fix_at(render(sc2, -1))
        w.put('proj/main.lua', main_text.encode('latin-1'))
        out_rel = 'out/out.p8' + ('.png' if sc['out_fmt'] == 'png' else '')
        if sc.get('out_prior') == 'cart':
            prior = refcodec.cart_from_spec({
                'code': {'$txt': PRIOR_CODES[sc.get('out_prior_code', 0) %
                                             len(PRIOR_CODES)]},
                'regions': {k: 5 + j for j, k in
                            enumerate(refcodec.REGIONS)}})
            w.put(out_rel, refcodec.encode_any(out_rel, prior))
        if how == 'env':
            os.environ['PICO8_LUA_PATH'] = lp_value
        cwd = w.p('proj') if sc.get('cwd') == 'base' else w.root
        os.chdir(cwd)
        main_arg = 'main.lua' if sc.get('cwd') == 'base' else w.p(
            'proj/main.lua')
        argv = list(sc.get('global_flags') or []) + [
            'build', w.p(out_rel), '--lua', main_arg]
        if how == 'arg':
            argv += ['--lua-path', lp_value]
        shared_ns = None
        table, err = model_traverse(sc2, w, lp_value)
        expect_fail = err is not None
        if fk == 'MALFORMED' and err is None:
            fk = None          # the malformed call is in an unreachable file
        if fk == 'MALFORMED' and fault['how'].startswith('ghost'):
            # (a name of their own: the decoys must not change what any
            # well-formed require resolves to)
            wh = fault['where']
            d = _req_dir_of(sc2, wh if -1 < wh < len(sc2['pkgs']) else -1)
            for nm in ('ghost.lua', 'ghost'):
                if not os.path.lexists(w.p(d + nm)):
                    w.put(d + nm, b'ghost_decoy=1\n')
            core.bump(res['probes'], 'require-name-with-undecodable-byte')
        if fk == 'ENOENT' and err is None:
            fk = None              # the removed package was not reachable
        if sc.get('rebuild'):
            # the same project was built once before with older file
            # contents; every file is then rewritten in place.  The build
            # under test must reflect the files as they are now.
            for i, p in enumerate(sc2['pkgs']):
                if fk == 'ENOENT' and fault['pkg'] == i:
                    continue
                if p.get('hidden_missing'):
                    continue
                if sc.get('rebuild') == 'same-stat':
                    # older contents of the same length
                    w.put(_file_of(sc2, i), _file_bytes(sc2, i).replace(
                        b'mk_', b'ok_').replace(b'fn_', b'on_'))
                else:
                    w.put(_file_of(sc2, i), ('old_%d=1\n' % i).encode() +
                          _file_bytes(sc2, i))
            if sc.get('rebuild') == 'same-stat':
                w.put('proj/main.lua', main_text.encode('latin-1').replace(
                    b'mk_', b'ok_').replace(b'fn_', b'on_'))
            else:
                w.put('proj/main.lua', b'old_main=1\n' + main_text.encode('latin-1'))
            try:
                rrc = tool.main(argv)
            except BaseException:
                rrc = 'raised'
            core.bump(res['probes'], 'earlier-build-of-older-files' if
                      rrc == 0 else 'earlier-build-failed')
            for i, p in enumerate(sc2['pkgs']):
                if fk == 'ENOENT' and fault['pkg'] == i:
                    continue
                if p.get('hidden_missing'):
                    continue
                if sc.get('rebuild') == 'same-stat':
                    # rewritten in place, previous timestamps restored:
                    # (mtime, size) do not tell the versions apart
                    w.put_keep_times(_file_of(sc2, i), _file_bytes(sc2, i))
                else:
                    w.put(_file_of(sc2, i), _file_bytes(sc2, i))
            if sc.get('rebuild') == 'same-stat':
                w.put_keep_times('proj/main.lua', main_text.encode('latin-1'))
                core.bump(res['probes'], 'rebuilt-after-same-size-same-mtime-'
                          'rewrite')
            else:
                w.put('proj/main.lua', main_text.encode('latin-1'))
            if sc.get('out_prior') != 'cart' and os.path.exists(
                    w.p(out_rel)):
                os.unlink(w.p(out_rel))
            elif sc.get('out_prior') == 'cart':
                w.put(out_rel, refcodec.encode_any(out_rel, prior))
            w.err.seek(0)
            w.err.truncate(0)
        if sc.get('warmup') == 'failing-with-path':
            # an unrelated build with an explicit load path failed earlier in
            # this process; its load path names a directory of same-named
            # decoy packages that this build must never see
            for frm in [-1] + list(range(len(sc2['pkgs']))):
                f = sc2['main'] if frm == -1 else sc2['pkgs'][frm]
                for it in f['items']:
                    if it['t'] == 'req':
                        nm = req_name(sc2, frm, it['pkg']).lstrip('@')
                        w.put('proj/decoys/' + nm + '.lua',
                              b'decoy_package=1\n')
            w.put('warm/main.lua', b'warm_main=1\nrequire("nosuchpkg")\n')
            try:
                tool.main(['build', w.p('warm/out.p8'), '--lua',
                           w.p('warm/main.lua'), '--lua-path',
                           '%s/?.lua;?;?.lua' % w.p('proj/decoys')])
            except BaseException:
                pass
            core.bump(res['probes'], 'earlier-failing-build-with-load-path')
            w.err.seek(0)
            w.err.truncate(0)
        elif sc.get('warmup') == 'same-args-other-env' and how != 'arg' \
                and hasattr(tool, '_get_argparser'):
            # a caller that drives the command's function itself used this
            # very arguments object before, for another OUT, while
            # PICO8_LUA_PATH named a directory of same-named decoy packages
            for frm in [-1] + list(range(len(sc2['pkgs']))):
                f = sc2['main'] if frm == -1 else sc2['pkgs'][frm]
                for it in f['items']:
                    if it['t'] == 'req':
                        nm = req_name(sc2, frm, it['pkg']).lstrip('@')
                        w.put('proj/decoys/' + nm + '.lua',
                              b'decoy_package=1\n')
            shared_ns = tool._get_argparser().parse_args(args=argv)
            saved_lp = os.environ.get('PICO8_LUA_PATH')
            os.environ['PICO8_LUA_PATH'] = '%s/?.lua;?;?.lua' % w.p(
                'proj/decoys')
            real_out = shared_ns.filename
            shared_ns.filename = w.p('warm/out.p8')
            w.mkdir('warm')
            try:
                shared_ns.func(shared_ns)
            except BaseException:
                pass
            shared_ns.filename = real_out
            if saved_lp is None:
                os.environ.pop('PICO8_LUA_PATH', None)
            else:
                os.environ['PICO8_LUA_PATH'] = saved_lp
            core.bump(res['probes'], 'arguments-object-used-before')
            w.err.seek(0)
            w.err.truncate(0)
        elif sc.get('warmup'):
            # an unrelated project is built first in the same process: nothing
            # of it may show up in (or influence) the build under test
            w.put('warm/main.lua', b'warm_main=1\nrequire("w0")\n'
                  b'require("w1",{use_game_loop=true})\n')
            w.put('warm/w0.lua', b'warm_w0=1\nfunction _init() end\n')
            w.put('warm/w1.lua', b'function _draw() end\nwarm_w1=1\n')
            try:
                wrc = tool.main(['build', w.p('warm/out.p8'), '--lua',
                                 w.p('warm/main.lua')])
            except BaseException:
                wrc = 'raised'
            core.bump(res['probes'], 'warmup-build-before' if wrc == 0
                      else 'warmup-build-failed')
            w.err.seek(0)
            w.err.truncate(0)
        before = w.snap(out_rel)
        exc = None
        rc = None
        tracer = world.Tracer(step_cap=STEP_CAP) if sc.get('traced') else None
        import builtins
        real_open = builtins.open
        transient = []
        if fk == 'OPEN-TRANSIENT' and fault['pkg'] < len(sc2['pkgs']):
            # the package's file cannot be opened once (an editor is just
            # replacing it by rename); it is back at once
            import errno
            victim = os.path.realpath(w.p(_file_of(sc2, fault['pkg'])))

            def flaky_open(file, *a, **k):
                if not transient and isinstance(file, (str, bytes)):
                    name = os.fsdecode(file)
                    if os.path.realpath(name) == victim:
                        transient.append(name)
                        raise FileNotFoundError(
                            errno.ENOENT, os.strerror(errno.ENOENT), name)
                return real_open(file, *a, **k)
            builtins.open = flaky_open
        try:
            if tracer is not None:
                sys.settrace(tracer.global_trace)
            if shared_ns is not None:
                rc = shared_ns.func(shared_ns)
            else:
                rc = tool.main(argv)
        except BaseException as e:
            exc = e
        finally:
            sys.settrace(None)
            builtins.open = real_open
        if transient:
            core.bump(res['faults'], 'OPEN-TRANSIENT')
        failed = exc is not None or rc not in (0, None)
        after = w.snap(out_rel)
        core.bump(res['ops'], 'build')
        if sc.get('dense'):
            core.bump(res['probes'], 'dense-project')
        if any(it.get('alias') for f in [sc['main']] + sc['pkgs']
               for it in f['items']):
            core.bump(res['probes'], 'one-file-under-two-require-names')
        if any(';' in p_['name'] for p_ in sc['pkgs']):
            core.bump(res['probes'], 'load-path-separator-in-a-package-name')
        shape = _shape(sc)
        outcome = 'ok'
        if isinstance(exc, world.SimStepCap):
            outcome = 'no-termination'
            core.violation(
                res, 'C14', 'C14:no-termination',
                'C14|step cap exceeded|%s' % shape,
                'the build did not finish within %d traced line events '
                '(graph: %s)' % (STEP_CAP, _graph_desc(sc)))
        elif transient and exc is not None or (
                transient and rc not in (0, None)):
            # the build may fail on the fault (OUT as it was) or go on to a
            # complete, correct cart: nothing in between
            if before != after:
                outcome = 'failed-but-out-changed'
                core.violation(
                    res, 'C14', 'C14:failed-build-changed-out',
                    'C14|failed build changed OUT',
                    'the build failed on a file that could not be opened '
                    'but OUT changed')
            else:
                outcome = 'failed-on-transient-fault'
        elif expect_fail:
            core.bump(res['faults'], fk if fk in ('ENOENT', 'MALFORMED')
                      else 'MISSING')
            if not failed:
                outcome = 'bad-require-accepted'
                core.violation(
                    res, 'C14', 'C14:bad-require-accepted',
                    'C14|%s|accepted' % (
                        fault.get('how', fk) if fault else 'missing'),
                    'a require() that %s did not fail the build; main.lua: '
                    '%r' % ('names a missing file' if fk != 'MALFORMED'
                            else 'is malformed (%s)' % fault['how'],
                            main_text[:300]))
            elif before != after:
                outcome = 'failed-but-out-changed'
                core.violation(
                    res, 'C14', 'C14:failed-build-changed-out',
                    'C14|failed build changed OUT',
                    'the build failed but OUT changed')
            else:
                outcome = 'rejected'
        elif failed:
            outcome = 'valid-build-failed'
            cls = type(exc).__name__ if exc else 'rc'
            core.violation(
                res, 'C14', 'C14:valid-build-failed:%s:%s' % (
                    cls, _fail_shape(sc, table)),
                'C14|valid-build-failed|%s|%s' % (cls, _fail_shape(sc, table)),
                'a well-formed, complete package graph failed to build: %s; '
                'graph: %s' % (
                    world.describe_exc(exc, w) if exc else
                    'rc=%r stderr=%s' % (rc, w.unsubst(
                        w.err.getvalue()[-300:])), _graph_desc(sc)))
        else:
            try:
                cart = refcodec.decode_any(out_rel, after[2] or b'')
                code = cart['code'].decode('latin-1')
            except refcodec.RefCodecError as e:
                code = None
                outcome = 'out-undecodable'
                core.violation(res, 'C14', 'C14:out-undecodable',
                               'C14|undecodable', 'OUT is not decodable: %s'
                               % e)
            if code is not None:
                problem = check_output(sc2, code, table, main_text)
                if problem:
                    outcome = 'mismatch:' + problem[0]
                    core.violation(
                        res, 'C14', 'C14:' + problem[0],
                        'C14|%s|%s' % (problem[0], shape),
                        '%s; graph: %s; built code: %r' % (
                            problem[1], _graph_desc(sc), code[:1500]))
        # probes
        names = [t[0] for t in table]
        if len(set(t[1] for t in table)) < len(table):
            core.bump(res['probes'], 'same-file-under-two-names')
        if _has_cycle(sc):
            core.bump(res['probes'], 'cyclic-graph')
        if any(sum(1 for it in f['items'] if it['t'] == 'req' and
                   it['pkg'] == j) for f in [sc['main']] + sc['pkgs']
               for j in range(len(sc['pkgs']))) and _shared(sc):
            core.bump(res['probes'], 'package-shared-by-several-requirers')
        for (n_, idx, stripped) in table:
            pos = _gl_positions(sc['pkgs'][idx])
            for p_ in pos:
                core.bump(res['probes'], 'game-loop-fn-%s-%s' % (
                    p_, 'stripped' if stripped else 'kept'))
            if not sc['pkgs'][idx]['final_newline']:
                core.bump(res['probes'], 'package-without-final-newline')
        res['states'].append('%s|%s|%s' % (shape, fk or '-',
                                           outcome.split(':')[0] if
                                           not outcome.startswith('mismatch')
                                           else outcome))
        res['nontrivial'] = bool(table) or expect_fail
        ev.append((shape, fk, outcome, names,
                   core.sha(after[2] or b'')[:16],
                   world.describe_exc(exc, w) if exc else rc))
    return res


def check_output(sc, code, table, main_text):
    """-> (class, detail) or None."""
    main_ns = strip_ws_comments(main_text)
    if not table:
        if strip_ws_comments(code) != main_ns:
            return ('main-changed', 'no package is required, but the built '
                    'code differs from main.lua')
        return None
    heads = list(HEADER_RE.finditer(code))
    got_names = [_hname(m) for m in heads]
    want_names = [t[0] for t in table]
    for n in want_names:
        c = got_names.count(n)
        if c != 1:
            return ('package-defined-%d-times' % c if c else
                    'package-missing',
                    'package %r is defined %d times in the package table '
                    '(defined: %s, required: %s)' % (n, c, got_names,
                                                     want_names))
    extra = [n for n in got_names if n not in want_names]
    if extra:
        return ('unexpected-package', 'packages %s are defined but never '
                'required' % extra)
    loaders = list(LOADER_RE.finditer(code))
    if len(loaders) != 1:
        return ('loader-count', 'the loader `function require(` occurs %d '
                'times' % len(loaders))
    lpos = loaders[0].start()
    if any(m.start() > lpos for m in heads):
        return ('loader-before-package', 'a package definition follows the '
                'loader')
    # (comments in front of the table are no code)
    if not re.match(r'(?s)(?:\s*(?:--\[(=*)\[.*?\]\1\]|--[^\n]*(?:\n|$)))*'
                    r'\s*package\s*=\s*\{', code):
        return ('package-table-missing', 'the code does not start with the '
                'package table')
    # main program at the very end, unchanged
    tail_ns = strip_ws_comments(code[lpos:])
    if not tail_ns.endswith(main_ns):
        return ('main-not-at-end', 'the built code does not end with the '
                'main program unchanged (main: %r)' % main_text[:200])
    loader_ns = tail_ns[:len(tail_ns) - len(main_ns)]
    if 'mk_' in loader_ns or 'fn_' in loader_ns:
        return ('main-not-at-end', 'program statements appear inside the '
                'loader region')
    # each block: exactly the package's statements, minus stripped functions
    by_name = {t[0]: t for t in table}
    for k, m in enumerate(heads):
        name = _hname(m)
        end = heads[k + 1].start() if k + 1 < len(heads) else lpos
        block = code[m.end():end]
        block_ns = strip_ws_comments(block)
        if not block_ns.endswith('end'):
            return ('package-block-shape', 'package %r block does not end '
                    'with `end`' % name)
        block_ns = block_ns[:-3]
        _, idx, stripped = by_name[name]
        want = expected_block(sc, idx, stripped).replace('"@', '"')
        if block_ns != want:
            kind = 'package-code-changed'
            if stripped and any(('function' + g + '(') in block_ns
                                for g in GAME_LOOP) and \
                    expected_block(sc, idx, False).replace(
                        '"@', '"') == block_ns:
                kind = 'game-loop-not-stripped'
            elif not stripped and expected_block(sc, idx, True).replace(
                    '"@', '"') == block_ns:
                kind = 'game-loop-stripped-despite-option'
            return (kind, 'package %r: embedded code %r differs from the '
                    'package source %r (whitespace and comments removed)' % (
                        name, block_ns[:400], want[:400]))
    return None


def _with_malformed(sc):
    fault = sc['fault']
    how = fault['how']
    text = {
        'noarg': 'require()',
        'nonstring': 'require(mk_0)',
        'badopt': 'require("p0",{foo=true})',
        'badoptval': 'require("p0",{use_game_loop=1})',
        '3args': 'require("p0",{use_game_loop=true},3)',
        'optnottable': 'require("p0",true)',
        'concat': 'require("p".."0")',
        # a name with a byte that is no character in any encoding of file
        # names used here; a file with the name minus that byte exists
        'ghost-highbyte': 'require("ghost\\142")',
        'ghost-highbyte-first': 'require("\\200ghost")',
    }[how]
    where = fault['where']
    sc2 = dict(sc)
    bad = {'t': 'bad', 'id': 0, 'text': text}
    if where == -1 or where >= len(sc['pkgs']):
        f = dict(sc['main'])
        f['items'] = list(f['items']) + [bad]
        f['seps'] = list(f['seps']) + ['\n']
        sc2['main'] = f
    else:
        pk = list(sc['pkgs'])
        f = dict(pk[where])
        f['items'] = [bad] + list(f['items'])
        f['seps'] = ['\n'] + list(f['seps'])
        pk[where] = f
        sc2['pkgs'] = pk
    return sc2


def _gl_positions(p):
    items = [it for it in p['items'] if it['t'] not in ('blank', 'cm')]
    out = []
    for k, it in enumerate(items):
        if it['t'] == 'gl':
            out.append('start' if k == 0 else 'end' if k == len(items) - 1
                       else 'middle')
    return out


def _shape(sc):
    n = len(sc['pkgs'])
    pos = sorted({p_ for p in sc['pkgs'] for p_ in _gl_positions(p)})
    return '%dpk|%s|%s|gl=%s|nl=%s' % (
        n, sc['lua_path'], sc['out_fmt'], ','.join(pos) or '-',
        'all' if all(p['final_newline'] for p in sc['pkgs']) else 'some-missing')


def _fail_shape(sc, table):
    """Body shape of the packages involved, for known-finding signatures."""
    tags = set()
    for (n_, idx, stripped) in table:
        p = sc['pkgs'][idx]
        if stripped:
            for q in _gl_positions(p):
                if q != 'end':
                    tags.add('strip-gameloop-fn-not-last')
                else:
                    tags.add('strip-gameloop-fn-last')
            if not p['final_newline']:
                tags.add('package-without-final-newline')
    if any(not render(sc, idx).strip() for (n_, idx, st) in table):
        tags.add('empty-package')
    return '+'.join(sorted(tags)) or 'plain'


def _edges(sc):
    e = {}
    for frm in [-1] + list(range(len(sc['pkgs']))):
        f = sc['main'] if frm == -1 else sc['pkgs'][frm]
        e[frm] = [it['pkg'] for it in f['items'] if it['t'] == 'req'] + [
            it['inner_req'] for it in f['items']
            if it['t'] == 'gl' and it.get('inner_req') is not None]
    return e


def _has_cycle(sc):
    e = _edges(sc)
    color = {}

    def dfs(u):
        color[u] = 1
        for v in e.get(u, []):
            if color.get(v) == 1:
                return True
            if v not in color and dfs(v):
                return True
        color[u] = 2
        return False
    return dfs(-1)


def _shared(sc):
    e = _edges(sc)
    cnt = {}
    for u, vs in e.items():
        for v in set(vs):
            cnt[v] = cnt.get(v, 0) + 1
    return any(c > 1 for c in cnt.values())


def _graph_desc(sc):
    e = _edges(sc)
    parts = []
    for u in sorted(e):
        nm = 'main' if u == -1 else sc['pkgs'][u]['dir'] + sc['pkgs'][u]['name']
        extra = ''
        if u != -1:
            extra = '[gl:%s%s]' % (','.join(_gl_positions(sc['pkgs'][u])) or
                                   '-', '' if sc['pkgs'][u]['final_newline']
                                   else ',no-final-newline')
        parts.append('%s%s->%s' % (nm, extra, [sc['pkgs'][v]['name']
                                               for v in e[u]]))
    return '; '.join(parts)


# ---------------------------------------------------------------------------

def plan(prop, tier):
    if tier == 'quick':
        return {'runs': 6000, 'wall_cap': 900}
    return {'runs': 100000, 'wall_cap': 6 * 3600, 'opt_runs': 6000}


_orig_generate = generate


def generate(rng, prop, tier, index):      # noqa: F811
    sc = _orig_generate(rng, prop, tier, index)
    # cyclic graphs run under the step-bounded tracer (termination detector)
    if _has_cycle(sc) and index % 3 == 0:
        sc['traced'] = True
    if index % 5 == 2:
        sc['warmup'] = True if index % 10 == 2 else 'failing-with-path'
        if index % 20 == 7:
            sc['warmup'] = 'same-args-other-env'
    if index % 5 == 4:
        sc['rebuild'] = True if index % 15 != 4 else 'same-stat'
    sc['global_flags'] = [[], [], [], ['--debug'], ['-q']][index % 5] \
        if index % 3 == 0 else []
    sc['out_prior_code'] = index % 7
    if index % 9 == 1:
        # the very first bytes of a file are glyph characters
        holder = sc['main'] if (index // 9) % 2 == 0 or not sc['pkgs'] \
            else sc['pkgs'][(index // 18) % len(sc['pkgs'])]
        holder['items'].insert(0, {'t': 'glyph', 'id': 8000 + index % 997})
        holder['seps'].insert(0, '\n')
    if index % 11 == 3 and not (sc.get('fault') or {}).get('kind') == \
            'MALFORMED':
        # a library beside the project directory, found through a load-path
        # entry with `..`; the project directory may be a symbolic link
        k = len(sc['pkgs'])
        sc['pkgs'].append({'name': 'uplib%d' % k, 'dir': '', 'uplib': True,
                           'final_newline': True,
                           'items': [{'t': 'm', 'id': 9000 + k}],
                           'seps': ['\n']})
        sc['main']['items'].append({'t': 'req', 'pkg': k, 'ugl': False,
                                    'id': 9100 + k, 'form': 'stmt'})
        sc['main']['seps'].append('\n')
        sc['proj_symlink'] = index % 33 != 3
    if index % 7 in (2, 3):
        sc['out_prior'] = 'cart'
    _round8(core.derive_rng(index, 'pkggraph-round8',
                            rng.randrange(10**9)), sc)
    return sc


def _max_id(sc):
    ids = [0]
    for f in [sc['main']] + sc['pkgs']:
        for it in f['items']:
            ids.append(it.get('id', 0))
            ids.extend(it.get('inner') or [])
    return max(ids)


def _round8(rng, sc):
    """Variations added in round 8, drawn from a generator of their own
    after everything else (the scenarios of earlier rounds stay what they
    were apart from what is added here)."""
    pk = sc['pkgs']
    malformed = (sc.get('fault') or {}).get('kind') == 'MALFORMED'
    r = rng.random()
    if r < 0.035 and not sc.get('fault'):
        # a dense project: every module requires the same set of libraries
        # (a hundred and more require() calls for names already embedded)
        nid = [20000]

        def nx():
            nid[0] += 1
            return nid[0]
        nlib = rng.choice([9, 10, 11])
        nmod = rng.choice([10, 11, 12])
        pkgs = [{'name': 'l%d' % i, 'dir': '', 'final_newline': True,
                 'items': [{'t': 'm', 'id': nx()}], 'seps': ['\n']}
                for i in range(nlib)]
        for k in range(nmod):
            items = [{'t': 'req', 'pkg': j, 'ugl': False, 'id': nx(),
                      'form': 'stmt'} for j in range(nlib)]
            items.append({'t': 'm', 'id': nx()})
            pkgs.append({'name': 'm%d' % k, 'dir': '', 'final_newline': True,
                         'items': items, 'seps': ['\n'] * len(items)})
        mitems = [{'t': 'req', 'pkg': nlib + k, 'ugl': False, 'id': nx(),
                   'form': 'stmt'} for k in range(nmod)]
        mitems.append({'t': 'm', 'id': nx()})
        sc['pkgs'] = pkgs
        sc['main'] = {'items': mitems, 'seps': ['\n'] * len(mitems),
                      'final_newline': True}
        sc['dense'] = True
        sc.pop('proj_symlink', None)
        sc['traced'] = False       # (no cycle; the step bound is for cycles)
        return
    if 0.035 <= r < 0.16 and pk:
        # one file under two names: required once by its name and once with
        # the extension spelled out, with the opposite use_game_loop choice
        cands = []
        for frm in [-1] + list(range(len(pk))):
            f = sc['main'] if frm == -1 else pk[frm]
            for k, it in enumerate(f['items']):
                if it['t'] == 'req' and not it.get('alias') and \
                        _req_string(sc, frm, it['pkg']) is not None:
                    cands.append((frm, k))
        if cands:
            # (prefer a package with a require() inside a game-loop function)
            pref = [c for c in cands if any(
                x['t'] == 'gl' and x.get('inner_req') is not None
                for x in pk[(sc['main'] if c[0] == -1 else pk[c[0]])
                            ['items'][c[1]]['pkg']]['items'])]
            frm, k = rng.choice(pref or cands)
            f = sc['main'] if frm == -1 else pk[frm]
            it = f['items'][k]
            pos = rng.choice([k + 1, k + 1, k + 1, k, len(f['items'])])
            # (a `return` statement stays the last one of its file)
            for q, x in enumerate(f['items']):
                if x['t'] == 'ret':
                    pos = min(pos, q)
            f['items'].insert(pos, {'t': 'req', 'pkg': it['pkg'],
                                    'ugl': not it['ugl'], 'alias': True,
                                    'id': _max_id(sc) + 1, 'form': 'stmt'})
            f['seps'].insert(min(pos, len(f['seps'])), '\n')
    if 0.16 <= r < 0.22 and pk and not malformed:
        # a load-path separator inside a package name (a legal file name)
        plain = [i for i, p_ in enumerate(pk)
                 if p_['name'].isalnum() and not p_.get('selfdir') and
                 not p_.get('vendor') and not p_.get('uplib')]
        if plain:
            i = rng.choice(plain)
            pk[i]['name'] += rng.choice([';b', ';p0', ';', ';x.lua'])


def shrink(sc):
    pk = sc['pkgs']
    # drop a package that nobody requires
    e = _edges(sc)
    used = {v for vs in e.values() for v in vs}
    for i in range(len(pk) - 1, -1, -1):
        if i not in used:
            yield _drop_pkg(sc, i)
    # drop items
    for frm in [-1] + list(range(len(pk))):
        f = sc['main'] if frm == -1 else pk[frm]
        items = f['items']
        for k in range(len(items)):
            nf = dict(f, items=items[:k] + items[k + 1:],
                      seps=f['seps'][:k] + f['seps'][k + 1:])
            yield _with_file(sc, frm, nf)
        for k, it in enumerate(items):
            if it['t'] == 'gl' and it['inner']:
                nf = dict(f, items=items[:k] + [dict(it, inner=[])] +
                          items[k + 1:])
                yield _with_file(sc, frm, nf)
            if it['t'] == 'req' and it['form'] != 'stmt':
                nf = dict(f, items=items[:k] + [dict(it, form='stmt')] +
                          items[k + 1:])
                yield _with_file(sc, frm, nf)
            if it['t'] not in ('req', 'gl', 'm', 'ret', 'bad'):
                nf = dict(f, items=items[:k] + [dict(it, t='m')] +
                          items[k + 1:])
                yield _with_file(sc, frm, nf)
        if any(s != '\n' for s in f['seps']):
            yield _with_file(sc, frm, dict(f, seps=['\n'] * len(f['seps'])))
        if not f['final_newline'] and frm == -1:
            yield _with_file(sc, frm, dict(f, final_newline=True))
        if frm != -1 and f['dir']:
            yield _with_file(sc, frm, dict(f, dir=''))
    for k, v in (('lua_path', 'default'), ('out_fmt', 'p8'),
                 ('out_prior', 'absent'), ('cwd', 'root')):
        if sc.get(k) != v:
            yield dict(sc, **{k: v})
    if sc.get('traced') and not _has_cycle(sc):
        yield dict(sc, traced=False)
    if sc.get('warmup'):
        yield dict(sc, warmup=False)
    if sc.get('rebuild'):
        yield dict(sc, rebuild=False)
    if sc.get('global_flags'):
        yield dict(sc, global_flags=[])


def _with_file(sc, frm, nf):
    if frm == -1:
        return dict(sc, main=nf)
    pk = list(sc['pkgs'])
    pk[frm] = nf
    return dict(sc, pkgs=pk)


def _drop_pkg(sc, i):
    def remap(f):
        items = []
        seps = []
        for k, it in enumerate(f['items']):
            if it['t'] == 'gl' and it.get('inner_req') is not None:
                if it['inner_req'] == i:
                    it = {kk: v for kk, v in it.items()
                          if kk not in ('inner_req', 'inner_ugl')}
                elif it['inner_req'] > i:
                    it = dict(it, inner_req=it['inner_req'] - 1)
            if it['t'] == 'req':
                if it['pkg'] == i:
                    continue
                if it['pkg'] > i:
                    it = dict(it, pkg=it['pkg'] - 1)
            items.append(it)
            seps.append(f['seps'][k] if k < len(f['seps']) else '\n')
        return dict(f, items=items, seps=seps)
    pk = [remap(p) for j, p in enumerate(sc['pkgs']) if j != i]
    out = dict(sc, pkgs=pk, main=remap(sc['main']))
    f = sc.get('fault')
    if f and f['kind'] == 'ENOENT':
        if f['pkg'] == i:
            out['fault'] = None
        elif f['pkg'] > i:
            out['fault'] = dict(f, pkg=f['pkg'] - 1)
    if f and f['kind'] == 'MALFORMED' and f['where'] >= i and f['where'] > -1:
        out['fault'] = dict(f, where=max(-1, f['where'] - 1))
    return out


RULE = {
    'C14': 'seeded package graphs of 0-6 packages plus a main file on the '
           'simulated store (spanning tree plus 0-3 extra edges: chains, '
           'diamonds, self-requires, cycles), packages in nested directories, '
           'require strings relative to the requiring file or resolved '
           'through a custom load path (--lua-path / PICO8_LUA_PATH / default)'
           ', per-package {use_game_loop=true}, bodies of uniquely numbered '
           'statements (assignments, locals, tables, functions, if / short-if, '
           'do-blocks, nested game-loop-named functions, comments, return) '
           'with _init/_update/_update60/_draw definitions at the start, '
           'middle and end, one-line and multi-line, statement separators '
           '{newline, blank line, space, `;`}, with and without final '
           'newline; require() as statement, local, table field, call '
           'argument and inside a function; faults: ENOENT on a package, '
           'malformed calls (no argument, non-string, bad option, bad option '
           'value, three arguments, non-table option, concatenation). Oracle: '
           'build succeeds iff the graph is complete and well-formed; each '
           'required name defined exactly once; every package block equals '
           'the package source minus stripped top-level game-loop functions '
           '(whitespace/comment-free text, i.e. token-for-token for this '
           'statement language); loader once, after all packages; main '
           'program unchanged at the end; failed builds leave OUT untouched; '
           'cyclic graphs terminate within a traced step bound. distinct = '
           'distinct tuples (graph size, load-path mode, OUT format, '
           'game-loop positions, final-newline class, fault, outcome); '
           'non-trivial iff at least one package is embedded or a failure is '
           'expected',
}

ASSUMPTIONS = {
    'C14': ['package bodies are drawn from a restricted statement language '
            'with unique markers; token-for-token preservation of arbitrary '
            'dialect programs is not decided',
            'comments are not tokens: a comment adjacent to a stripped '
            'function may disappear with it',
            '`require "x"` string-call syntax, `_init = function` assignments '
            'and `local function _init` are not generated (the statement is '
            'ambiguous about them)',
            'the order of package definitions is not constrained'],
}

REQUIRED_PROBES = {
    ('C14', 'quick'): ['cyclic-graph', 'package-shared-by-several-requirers',
                       'game-loop-fn-start-stripped',
                       'game-loop-fn-middle-stripped',
                       'game-loop-fn-end-stripped', 'game-loop-fn-middle-kept',
                       'package-without-final-newline',
                       'same-file-under-two-names'],
}


RULE_MORE = {'C14': " Added in the build rounds: unusual package names (dots, spaces, quotes, backslashes) in three quoting styles, require() in 24 syntactic positions and inside game-loop functions (to packages nothing else reaches, possibly missing), functions whose names merely start with a game-loop name, CRLF packages with multi-line strings (long-string contents compared exactly), packages in a directory of their own name (entry with two ?), a vendor package behind a path component that is a file, global flags, and earlier builds in the same process (unrelated project, the same files with older contents, a failing build whose --lua-path names same-named decoys). Round 6: require names holding a byte that is not valid UTF-8 next to decoy files named without it (must fail); OUT's previous code starting with title comments in line, block and multi-line block form; comments in front of the package table are not counted as code; the arguments object of the build used before, for another OUT, under another PICO8_LUA_PATH (command function called directly). Round 7: package files rewritten with contents of the same size and their previous timestamps before the rebuild; the project directory as a symbolic link with a library beside its target, found through a load-path entry with `..` (a decoy beside the link); files whose first statement starts with glyph characters that are the bytes of a byte order mark; fault OPEN-TRANSIENT (one package file cannot be opened once): the build fails with OUT as it was, or yields the complete cart. Round 8: dense projects (10-12 modules that each require the same 9-11 libraries: a hundred and more require() calls for names already embedded); one file required under two names (its name, and its name with the extension spelled out) with opposite use_game_loop choices, each name getting a block of its own and the require() calls inside kept game-loop functions being followed; `;` inside package names."}
