"""Engine `cartwrite` (C11): failure atomicity of every cart write.

One operation per run against a store holding a destination in a seeded prior
state, through every public route to a cart write, with one fault: a failing
or torn write on the encoder's stream (enumerated over every write index), a
crash at a line site inside pico8/, or an internal failure source reachable
through public arguments.  Oracle: if producing the cart failed, the
destination path is exactly as before.
"""

import os
import sys

from picosim import core, refcodec, world

NAME = 'cartwrite'
PROPS = ('C11',)

WRITERS = ('default', 'LuaEchoWriter', 'LuaASTEchoWriter', 'LuaMinifyWriter',
           'LuaMinifyTokenWriter', 'LuaFormatterWriter',
           'LuaFormatterTokenWriter', 'PureLuaWriter')
PRIORS = ('absent', 'cart', 'garbage', 'empty')
LIB_ROUTES = ('lib', 'lib-overwrite', 'lib-twice')
CLI_ROUTES = ('writep8', 'luamin', 'luafmt', 'luafmt-overwrite', 'build',
              'build-minify', 'luamin-2files', 'writep8-2files')
EXT = {'p8': '.p8', 'png': '.p8.png'}

GLYPH_CODE = (b'-- glyphs \x8b\x91\x94\x83\n'
              b'function _update() if btn(\x8b) then x\x80=1 end end\n'
              b's="\x99\xe3\x81"\nm17=17\n')
CODE_SAMPLES = (
    b'-- title\n-- by me\nfunction _init()\n x=1\n if (x>0) x+=1\n ?"hi"\n'
    b'end\nm17=17\nm18={1,2,"s"}\nlocal function f(a,...) return a end\n',
    b'x=1\n',
    b'',
    b'-- c\nm1=1 m2=2\nfor i=1,3 do m3=i end\nwhile m1<0 do m1+=1 end\n'
    b'function _update() m4=[[long\nstring]] end\n--[[ block\ncomment ]]\n'
    b'm5="a\\nb"\n',
)


def deep_code(depth):
    return (b'm0=' + b'(' * depth + b'1' + b')' * depth + b'\n' +
            b'm1={' * 1 + b'{' * depth + b'}' * depth + b'}\n')


# ---------------------------------------------------------------------------
# harness-side Lua writers (public extension point: lua_writer_cls)

def _writer_classes():
    from pico8.lua import lua

    class RaiseAfterWriter(lua.LuaEchoWriter):
        """Yields `after` lines, then raises; only on pass number `on_pass`
        (the .p8 formatter runs the writer twice: sanity pass, then output)."""
        passes = [0]
        raised = [0]

        def to_lines(self):
            self.passes[0] += 1
            n = 0
            for line in super().to_lines():
                if self.passes[0] >= self._args.get('on_pass', 1) and \
                        n >= self._args.get('after', 0):
                    self.raised[0] += 1
                    raise self._exc()('writer failed after %d lines' % n)
                n += 1
                yield line
            if self.passes[0] >= self._args.get('on_pass', 1):
                self.raised[0] += 1
                raise self._exc()('writer failed at end')

        def _exc(self):
            from pico8 import util
            return {'RuntimeError': RuntimeError, 'ValueError': ValueError,
                    'NotImplementedError': NotImplementedError,
                    'OSError': OSError, 'KeyError': KeyError,
                    'util.Error': util.Error,
                    'InvalidP8DataError': util.InvalidP8DataError,
                    'StopIteration': StopIteration,
                    'SystemExit': SystemExit,
                    'AssertionError': AssertionError,
                    'IndexError': IndexError,
                    'FileNotFoundError': FileNotFoundError}[
                self._args.get('exc', 'RuntimeError')]

    class GarbageWriter(lua.BaseLuaWriter):
        def to_lines(self):
            yield b'x = = 1\n'
            yield b'end end )\n'

    class UnterminatedWriter(lua.BaseLuaWriter):
        def to_lines(self):
            yield b'x = "unterminated\n'

    class NotBytesWriter(lua.BaseLuaWriter):
        def to_lines(self):
            yield b'x=1\n'
            yield 'y=2\n'        # a str, not bytes

    return {'RaiseAfterWriter': RaiseAfterWriter,
            'GarbageWriter': GarbageWriter,
            'UnterminatedWriter': UnterminatedWriter,
            'NotBytesWriter': NotBytesWriter}


_LAST_RAISER = [None]


def writer_class(name):
    from pico8.lua import lua
    if name in (None, 'default'):
        return None
    if hasattr(lua, name):
        return getattr(lua, name)
    classes = _writer_classes()
    cls = classes[name]
    if name == 'RaiseAfterWriter':
        cls.passes[0] = 0
        cls.raised[0] = 0
        _LAST_RAISER[0] = cls
    return cls


# ---------------------------------------------------------------------------
# base scenarios (fault-free), laid out over the configuration matrix

def matrix():
    lib_combos = [(r, f, w, p) for r in ('lib',) for f in ('p8', 'png')
                  for w in WRITERS for p in PRIORS]           # 64
    lib_combos += [('lib-overwrite', f, w, 'cart') for f in ('p8', 'png')
                   for w in WRITERS]                            # 16
    # a successful write of another cart to the same destination comes first
    lib_combos += [('lib-twice', f, w, p) for f in ('p8', 'png')
                   for (w, p) in (('default', 'absent'),
                                  ('LuaMinifyWriter', 'cart'),
                                  ('LuaFormatterWriter', 'garbage'))]  # 6
    cli_combos = []
    for r in ('writep8', 'luamin', 'luafmt'):
        for f in ('p8', 'png'):
            for p in PRIORS:
                cli_combos.append((r, f, None, p))              # 24
    cli_combos += [('luafmt-overwrite', 'p8', None, 'cart')] * 4
    for r in ('luamin-2files', 'writep8-2files'):
        for p in PRIORS:
            cli_combos.append((r, 'p8', None, p))                 # 8
    for r in ('build', 'build-minify'):
        for f in ('p8', 'png'):
            for p in PRIORS:
                cli_combos.append((r, f, None, p))              # 16
    return lib_combos + cli_combos


MATRIX = matrix()
REPRESENTATIVE = {
    ('lib', 'p8', 'default', 'absent'),
    ('lib', 'png', 'LuaFormatterWriter', 'cart'),
    ('lib-overwrite', 'p8', 'LuaMinifyTokenWriter', 'cart'),
    ('luafmt', 'p8', None, 'cart'), ('build', 'p8', None, 'cart'),
}


def base_scenario(rng, index):
    route, fmt, writer, prior = MATRIX[index % len(MATRIX)]
    sc = {
        'engine': NAME, 'route': route, 'fmt': fmt, 'writer': writer,
        'prior': prior,
        'src_fmt': fmt if route in ('lib-overwrite', 'luafmt-overwrite',
                                    'writep8', 'luamin', 'luafmt',
                                    'luamin-2files', 'writep8-2files')
        else rng.choice(['p8', 'png']),
        'cart': _cart_spec(rng),
        'prior_cart': _cart_spec(rng),
        'fault': None,
    }
    if writer in ('LuaFormatterWriter', 'LuaFormatterTokenWriter'):
        sc['writer_args'] = {'indentwidth': rng.choice([1, 2, 4])}
    if writer in ('LuaMinifyWriter', 'LuaMinifyTokenWriter'):
        sc['writer_args'] = rng.choice([
            None, {'keep_all_names': True}, {'keep_all_names': False},
            {'keep_names_from_file': '$ROOT/in/names.txt'}])
    flags = []
    if route in ('luamin', 'build-minify'):
        flags = rng.choice([[], [], ['--keep-all-names'],
                            ['--keep-names-from-file', '$ROOT/in/names.txt']])
    elif route in ('luafmt', 'luafmt-overwrite'):
        flags = rng.choice([[], ['--indentwidth', '4'],
                            ['--indentwidth', '0']])
    sc['cli_flags'] = flags
    # where the system keeps temporary files: sometimes the very directory
    # the destination lives in
    sc['tmpdir'] = rng.choice([None, None, None, 'out', 'in', 'out'])
    # the destination may be a symbolic link to a cart kept elsewhere
    sc['odd_names'] = rng.random() < 0.2
    # the existing destination has a second hard link (a snapshot backup)
    sc['dest_hardlink'] = rng.random() < 0.2
    if route in ('lib-overwrite', 'luafmt-overwrite'):
        # (every second of the rows that write over their input)
        sc['dest_hardlink'] = (index // len(MATRIX) + index) % 2 == 0
    sc['dest_symlink'] = prior == 'cart' and route not in (
        'lib-overwrite', 'luafmt-overwrite') and rng.random() < 0.25
    # file arguments spelled relative to a working directory
    sc['argstyle'] = rng.choice(['abs', 'abs', 'rel'])
    sc['cwd'] = rng.choice(['root', 'in', 'out'])
    # something happened earlier in this process
    sc['prelude'] = rng.choice([None, None, None, 'ok-write', 'failed-write',
                                'failed-load'])
    sc['global_flags'] = rng.choice([[], [], ['-q'], ['--debug']])
    sc['source_gone'] = route in ('lib', 'lib-twice') and rng.random() < 0.2
    # round 8 (decided by position in the matrix, no draws)
    rnd_no = index // len(MATRIX)
    if prior == 'absent' and route in ('lib', 'writep8', 'luamin', 'luafmt',
                                       'build', 'build-minify') and \
            (rnd_no + index) % 3 == 1:
        # the destination name is a symbolic link whose target does not
        # exist (yet): nothing is there, and nothing may be after a failure
        sc['dest_dangling'] = True
        sc['odd_names'] = False
    if route == 'luafmt-overwrite' and (rnd_no + index) % 2 == 1:
        # an earlier plain `luafmt` run left <name>_fmt.p8 beside the cart
        sc['stale_fmt_sibling'] = True
    if route.startswith('build'):
        sc['build'] = {
            'lua': rng.choice(['cart', 'luafile', 'none']),
            'gfx': rng.choice(['cart', 'none', 'empty']),
            'sfx': rng.choice(['cart', 'none', 'empty']),
        }
    return sc


def _cart_spec(rng):
    code = rng.choice(CODE_SAMPLES)
    if rng.random() < 0.15:
        code = deep_code(rng.choice([5, 20, 40]))
    elif rng.random() < 0.2:
        code = GLYPH_CODE
    return {
        'version': rng.choice([8, 16, 29, 33]),
        'code': core.enc_bytes(code),
        'regions': {k: rng.choice(['empty', rng.randint(1, 10**9),
                                   rng.randint(1, 10**9),
                                   {'$fill': rng.choice([0xff, 0x80, 0x7f])}])
                    for k in refcodec.REGIONS},
        'label': rng.choice([None, {'p8_seed': rng.randint(1, 10**6),
                                    'png_seed': rng.randint(1, 10**6)}]),
    }


INTERNAL_FAULTS = (
    [{'kind': 'WRITER-RAISE', 'after': a, 'on_pass': p, 'exc': e}
     for (a, p, e) in ((0, 1, 'RuntimeError'), (1, 1, 'ValueError'),
                       (3, 1, 'NotImplementedError'), (99, 1, 'OSError'),
                       (0, 2, 'util.Error'), (1, 2, 'NotImplementedError'),
                       (3, 2, 'InvalidP8DataError'), (99, 2, 'KeyError'),
                       (2, 1, 'StopIteration'), (2, 2, 'SystemExit'),
                       (0, 1, 'NotImplementedError'),
                       (2, 1, 'AssertionError'), (3, 2, 'IndexError'),
                       (1, 1, 'IndexError'), (4, 2, 'AssertionError'),
                       (1, 1, 'FileNotFoundError'))] +
    [{'kind': 'WRITER-BASE'}] +
    [{'kind': 'WRITER-GARBAGE', 'which': w}
     for w in ('GarbageWriter', 'UnterminatedWriter', 'NotBytesWriter')] +
    [{'kind': 'SECTION-BAD', 'how': h}
     for h in ('sfx-none', 'music-short', 'gfx-none', 'map-none', 'gff-none',
               'version-300', 'version-none', 'version-neg', 'label-object',
               'lua-none', 'music-none', 'sfx-short')] +
    [{'kind': 'LABEL-BAD', 'how': h}
     for h in ('missing', 'empty', 'garbage', 'truncated', 'directory',
               'dest-garbage', 'dest-truncated-png')] +
    [{'kind': 'RECURSION', 'limit': n} for n in (60, 90, 120, 160, 220)] +
    [{'kind': 'ROM-DEST'}, {'kind': 'ROM-DEST'}, {'kind': 'TMP-ERR'},
     {'kind': 'TMP-ERR'}, {'kind': 'WARN-STREAM-ERR'},
     {'kind': 'WARN-STREAM-ERR'}, {'kind': 'CODE-TOO-BIG'},
     {'kind': 'OUT-FLUSH-ERR'}, {'kind': 'TOKENS-EDITED'},
     {'kind': 'TOKENS-EDITED'}]
)
CLI_INTERNAL_FAULTS = (
    [{'kind': 'ARG-BAD', 'how': h}
     for h in ('keep-names-missing', 'indentwidth-str', 'src-garbage',
               'src-missing', 'src-lexerror', 'src-parseerror')] +
    [{'kind': 'RECURSION', 'limit': n} for n in (60, 90, 120, 160, 220)] +
    [{'kind': 'TMP-ERR'}, {'kind': 'CODE-TOO-BIG'}, {'kind': 'OUT-FLUSH-ERR'},
     {'kind': 'OUT-FLUSH-ERR'}]
)
BUILD_INTERNAL_FAULTS = (
    [{'kind': 'ARG-BAD', 'how': h}
     for h in ('conflict', 'missing-source', 'wrong-ext', 'optimize-tokens',
               'lua-format', 'require-missing', 'out-garbage',
               'keep-names-missing', 'lua-syntax-error', 'out-wrong-ext')] +
    [{'kind': 'RECURSION', 'limit': n} for n in (60, 90, 120, 160, 220)] +
    [{'kind': 'TMP-ERR'}, {'kind': 'CODE-TOO-BIG'}, {'kind': 'OUT-FLUSH-ERR'}]
)


# ---------------------------------------------------------------------------
# executing one scenario

def _dest_rel(sc):
    rel = _dest_rel0(sc)
    if sc.get('odd_names') and rel.startswith('out/'):
        # spaces and extra dots in directory and file names
        rel = 'out dir/' + rel[len('out/'):].replace('dest', 'my dest v1.2')
    return rel


def _dest_rel0(sc):
    r = sc['route']
    if (sc.get('fault') or {}).get('kind') == 'ROM-DEST' and r == 'lib':
        # .rom is a recognised cart type whose encoder is not implemented:
        # a natural "encoder raises"
        return 'out/dest.rom'
    if r in ('lib', 'lib-twice'):
        return 'out/dest' + EXT[sc['fmt']]
    if r in ('lib-overwrite', 'luafmt-overwrite'):
        return 'in/src' + EXT[sc['src_fmt']]
    if r in ('writep8', 'luamin', 'luafmt', 'luamin-2files',
             'writep8-2files'):
        return 'in/src_fmt' + EXT[sc['src_fmt']]
    if r.startswith('build'):
        return 'out/dest' + EXT[sc['fmt']]
    raise core.HarnessError(r)


def _dests(sc):
    """All destinations of the operation, in processing order."""
    d = [_dest_rel(sc)]
    if sc['route'].endswith('-2files'):
        d.append('in/src2_fmt.p8.png')
    return d


def _prior_bytes(sc, dest_rel):
    p = sc['prior']
    if p == 'absent':
        return None
    if p == 'empty':
        return b''
    if p == 'garbage':
        return b'this is not a cart\n' + core.rnd_bytes(7, 300)
    cart = refcodec.cart_from_spec(sc['prior_cart'])
    return refcodec.encode_any(dest_rel, cart)


def _mutate_game(g, how):
    if how == 'sfx-none':
        g.sfx = None
    elif how == 'music-none':
        g.music = None
    elif how == 'music-short':
        g.music._data = bytearray(b'\x01\x02\x03')
    elif how == 'sfx-short':
        g.sfx._data = bytearray(b'\x01' * 70)
    elif how == 'gfx-none':
        g.gfx = None
    elif how == 'map-none':
        g.map = None
    elif how == 'gff-none':
        g.gff = None
    elif how == 'lua-none':
        g.lua = None
    elif how == 'version-300':
        g.version = 300
    elif how == 'version-none':
        g.version = None
    elif how == 'version-neg':
        g.version = -1
    elif how == 'label-object':
        g.label = object()
    else:
        raise core.HarnessError(how)


def _prelude(w, sc):
    """Something that happened earlier in the same process (outside the
    fault window): a successful write of another cart, a write that failed,
    or a load that failed."""
    from pico8.game import file as pfile
    how = sc.get('prelude')
    if not how:
        return
    other = refcodec.cart_from_spec(sc['prior_cart'])
    w.put('pre/other.p8', refcodec.encode_p8(other))
    try:
        if how == 'ok-write':
            pfile.to_file(pfile.from_file(w.p('pre/other.p8')),
                          w.p('pre/written.p8.png'))
        elif how == 'failed-write':
            g = pfile.from_file(w.p('pre/other.p8'))
            g.sfx = None
            pfile.to_file(g, w.p('pre/failed.p8'))
        elif how == 'failed-load':
            w.put('pre/broken.p8', b'not a cart\n')
            pfile.from_file(w.p('pre/broken.p8'))
    except BaseException:
        pass


def _setup(w, sc):
    """Populate the store; returns (dest_rel, op callable)."""
    from pico8.game import file as pfile
    from pico8 import tool
    route = sc['route']
    fault = sc.get('fault') or {}
    fk = fault.get('kind')
    how = fault.get('how')
    dest_rel = _dest_rel(sc)
    cart = refcodec.cart_from_spec(sc['cart'])
    src_rel = 'in/src' + EXT[sc['src_fmt']]
    w.mkdir('in')
    w.mkdir('out')
    w.mkdir(os.path.dirname(dest_rel))
    w.put('in/names.txt', b'm17 m18\nx\n')
    src_bytes = refcodec.encode_any(src_rel, cart)
    if fk == 'ARG-BAD' and how == 'src-garbage':
        src_bytes = b'garbage\n' * 10
    if fk == 'ARG-BAD' and how in ('src-lexerror', 'src-parseerror') and \
            sc['src_fmt'] == 'p8':
        bad = dict(cart)
        bad['code'] = b'x = "oops\n' if how == 'src-lexerror' else \
            b'x = = 1\n'
        src_bytes = refcodec.encode_p8(bad)
    if not (fk == 'ARG-BAD' and how == 'src-missing'):
        w.put(src_rel, src_bytes)
    if route not in ('lib-overwrite', 'luafmt-overwrite'):
        pb = _prior_bytes(sc, dest_rel)
        if pb is not None:
            if sc.get('dest_symlink'):
                real = 'in/linked_target' + os.path.splitext(dest_rel)[1] \
                    if not dest_rel.endswith('.p8.png') else \
                    'in/linked_target.p8.png'
                w.put(real, pb)
                os.makedirs(os.path.dirname(w.p(dest_rel)), exist_ok=True)
                os.symlink(os.path.relpath(w.p(real), os.path.dirname(
                    w.p(dest_rel))), w.p(dest_rel))
            else:
                w.put(dest_rel, pb)
    if sc.get('dest_dangling') and not os.path.lexists(w.p(dest_rel)):
        os.symlink('not_there_yet' + os.path.splitext(dest_rel)[1],
                   w.p(dest_rel))
    if sc.get('stale_fmt_sibling'):
        stale = refcodec.cart_from_spec(sc['prior_cart'])
        w.put('in/src_fmt' + EXT[sc['src_fmt']],
              refcodec.encode_any('in/src_fmt' + EXT[sc['src_fmt']], stale))
    cwd_rel = {'root': '', 'in': 'in', 'out': 'out'}[sc.get('cwd', 'root')]
    os.chdir(w.p(cwd_rel))

    def A(path):
        """Spell a file argument the way the scenario says."""
        if sc.get('argstyle', 'abs') == 'abs':
            return path
        return os.path.relpath(path, w.p(cwd_rel))
    dest = A(w.p(dest_rel))
    if sc.get('dest_hardlink') and os.path.isfile(w.p(dest_rel)) and \
            not os.path.islink(w.p(dest_rel)):
        w.mkdir('backup')
        os.link(w.p(dest_rel), w.p('backup/hardlink_of_dest'))
    _prelude(w, sc)

    if route in LIB_ROUTES:
        g = pfile.from_file(w.p(src_rel))
        if sc.get('source_gone') and route != 'lib-overwrite':
            # the cart the game was loaded from is moved away before the
            # game is saved under another name
            os.rename(w.p(src_rel), w.p('in/moved_away.bin'))
        kwargs = {}
        wname = sc.get('writer')
        wargs = sc.get('writer_args')
        if fk == 'WRITER-RAISE':
            wname = 'RaiseAfterWriter'
            wargs = {'after': fault['after'], 'on_pass': fault['on_pass'],
                     'exc': fault.get('exc', 'RuntimeError')}
        elif fk == 'WRITER-BASE':
            # the abstract base class is a writer whose to_lines raises
            # NotImplementedError
            wname = 'BaseLuaWriter'
            wargs = None
        if wargs and wargs.get('keep_names_from_file'):
            wargs = dict(wargs, keep_names_from_file=w.subst(
                wargs['keep_names_from_file']))
        elif fk == 'WRITER-GARBAGE':
            wname = fault['which']
            wargs = None
        elif fk == 'SECTION-BAD':
            _mutate_game(g, how)
        elif fk == 'LABEL-BAD':
            if how == 'missing':
                kwargs['label_fname'] = w.p('in/nolabel.png')
            elif how == 'empty':
                w.put('in/label.png', b'')
                kwargs['label_fname'] = w.p('in/label.png')
            elif how == 'garbage':
                w.put('in/label.png', b'GIF89a not a png at all')
                kwargs['label_fname'] = w.p('in/label.png')
            elif how == 'truncated':
                w.put('in/label.png', refcodec.encode_p8png(cart)[:500])
                kwargs['label_fname'] = w.p('in/label.png')
            elif how == 'directory':
                w.mkdir('in/labeldir')
                kwargs['label_fname'] = w.p('in/labeldir')
            elif how == 'dest-garbage':
                # the destination itself is the (unreadable) label source
                w.put(dest_rel, b'\x89PNG\r\n\x1a\n' + b'junk' * 20)
            elif how == 'dest-truncated-png':
                w.put(dest_rel, refcodec.encode_p8png(cart)[:900])
        cls = writer_class(wname)
        if fk == 'TOKENS-EDITED' and sc['fmt'] == 'p8' and \
                wname in (None, 'default', 'LuaEchoWriter'):
            # this very game was saved before, with the same writer and the
            # same arguments; then its program was edited through the token
            # list, and no longer parses
            w.mkdir('out')
            pfile.to_file(g, w.p('out/earlier_save_of_this_game.p8'),
                          lua_writer_cls=cls, lua_writer_args=wargs)
            from pico8.lua import lexer as _lexer
            g.lua.tokens.append(_lexer.TokSymbol(b'('))
            _TOKENS_EDITED[0] = True
        if route == 'lib-twice':
            # an earlier, successful write (not under fault injection)
            first = refcodec.cart_from_spec(sc['prior_cart'])
            w.put('in/first.p8', refcodec.encode_p8(first))
            if sc['prior'] == 'garbage' and sc['fmt'] == 'png':
                os.unlink(dest)       # a garbage label source would fail it
            pfile.to_file(pfile.from_file(w.p('in/first.p8')), dest)

        def op():
            # (to_file documents no return value; a status it may return is
            # passed on and read like an exit status)
            return pfile.to_file(g, dest, lua_writer_cls=cls,
                                 lua_writer_args=wargs, **kwargs)
        return dest_rel, op

    # CLI routes through tool.main
    if route in ('writep8', 'luamin', 'luafmt', 'luafmt-overwrite',
                 'luamin-2files', 'writep8-2files'):
        cmd = {'writep8': ['writep8'], 'luamin': ['luamin'],
               'luafmt': ['luafmt'],
               'luafmt-overwrite': ['luafmt', '--overwrite'],
               'luamin-2files': ['luamin'],
               'writep8-2files': ['writep8']}[route]
        argv = list(sc.get('global_flags') or []) + list(cmd) + [
            w.subst(a) for a in (sc.get('cli_flags') or [])]
        if fk == 'ARG-BAD' and how == 'keep-names-missing' and \
                route == 'luamin':
            argv += ['--keep-names-from-file', w.p('in/nonames.txt')]
        if fk == 'ARG-BAD' and how == 'indentwidth-str' and \
                route.startswith('luafmt'):
            argv += ['--indentwidth', 'wide']
        argv.append(A(w.p(src_rel)))
        if route.endswith('-2files'):
            second = refcodec.cart_from_spec(sc['prior_cart'])
            w.put('in/src2.p8.png', refcodec.encode_p8png(second))
            argv.append(A(w.p('in/src2.p8.png')))
            pb = _prior_bytes(sc, 'in/src2_fmt.p8.png')
            if pb is not None and sc['prior'] != 'garbage':
                w.put('in/src2_fmt.p8.png', pb)
    else:
        b = sc.get('build') or {}
        argv = list(sc.get('global_flags') or []) + ['build', dest] + [
            w.subst(a) for a in (sc.get('cli_flags') or [])]
        other = refcodec.cart_from_spec(sc['prior_cart'])
        w.put('in/other.p8', refcodec.encode_p8(other))
        if b.get('lua') == 'cart':
            argv += ['--lua', A(w.p(src_rel))]
        elif b.get('lua') == 'luafile':
            code = cart['code']
            if fk == 'ARG-BAD' and how == 'require-missing':
                code = b'require("nosuchpkg")\n' + code
            if fk == 'ARG-BAD' and how == 'lua-syntax-error':
                code = b'x = = 1\n'
            w.put('in/main.lua', code)
            argv += ['--lua', A(w.p('in/main.lua'))]
        if b.get('gfx') == 'cart':
            argv += ['--gfx', A(w.p('in/other.p8'))]
        elif b.get('gfx') == 'empty':
            argv += ['--empty-gfx']
        if b.get('sfx') == 'cart':
            argv += ['--sfx', A(w.p(src_rel))]
        elif b.get('sfx') == 'empty':
            argv += ['--empty-sfx']
        if route == 'build-minify':
            argv += ['--lua-minify']
        if fk == 'ARG-BAD':
            if how == 'conflict':
                argv += ['--map', w.p('in/other.p8'), '--empty-map']
            elif how == 'missing-source':
                argv += ['--gff', w.p('in/nothere.p8')]
            elif how == 'wrong-ext':
                w.put('in/thing.txt', b'hello')
                argv += ['--music', w.p('in/thing.txt')]
            elif how == 'optimize-tokens':
                w.put('in/opt.lua', b'x=1\n')
                argv = [a for a in argv if a != '--lua' and
                        not a.endswith(('main.lua', src_rel))]
                argv += ['--lua', w.p('in/opt.lua'), '--optimize-tokens']
            elif how == 'lua-format':
                argv += ['--lua-format']
            elif how == 'out-garbage':
                w.put(dest_rel, b'garbage, not a cart\n')
            elif how == 'out-unloadable-and-failing-writer':
                if os.path.islink(w.p(dest_rel)):
                    os.unlink(w.p(dest_rel))
                if sc['fmt'] == 'p8':
                    # a good cart for PICO-8, whose include target is not
                    # here at the moment
                    broken = dict(other)
                    broken['code'] = b'kept=1\n#include not_here.lua\n'
                    w.put(dest_rel, refcodec.encode_p8(broken))
                else:
                    w.put(dest_rel, b'\x89PNG\r\n\x1a\n' + b'junk' * 40)
                argv += ['--lua-format']
            elif how == 'keep-names-missing':
                argv += ['--lua-minify', '--keep-names-from-file',
                         w.p('in/nonames.txt')]
            elif how == 'out-wrong-ext':
                argv[argv.index(dest)] = dest + '.txt'

    def op():
        return tool.main(argv)
    return dest_rel, op


_TOKENS_EDITED = [False]


def execute(sc, profile=False):
    _TOKENS_EDITED[0] = False
    res = core.new_result()
    ev = res['events']
    fault = sc.get('fault')
    fk = fault['kind'] if fault else 'NONE'
    recursion = fault['limit'] if fk == 'RECURSION' else None
    wenv = {}
    if sc.get('tmpdir'):
        wenv['TMPDIR'] = '$ROOT/' + sc['tmpdir']
    with world.World(env=wenv) as w:
        try:
            dest_rel, op = _setup(w, sc)
        except Exception as e:
            # the store could not be prepared (e.g. the reference-encoded
            # source does not load): nothing to observe
            res['informative'] = False
            ev.append(('setup-failed', world.describe_exc(e, w)))
            res['states'].append('setup-failed|%s' % type(e).__name__)
            return res
        dests = _dests(sc)
        befores = [w.snap(d) for d in dests]
        before = befores[0]
        files_before = set(w.listing())
        write_plan = fault if fk in ('W-ERR', 'W-TORN') else None
        tracer = None
        if fk == 'CRASH' or profile:
            tracer = world.Tracer(plan=fault if fk == 'CRASH' else None,
                                  profile=profile)

        def on_return():
            if tracer is not None:
                tracer.armed = False

        def on_enter():
            # the next cart's production phase begins (multi-file commands)
            if tracer is not None and tracer.fired is None:
                tracer.armed = True

        er = world.EncoderRun(write_plan, on_return, on_enter)
        exc = None
        rc = None
        base_limit = sys.getrecursionlimit()
        w.start_io_log()
        if fk == 'WARN-STREAM-ERR':
            from pico8 import util as _util

            class _Broken:
                hits = 0

                def write(self, msg):
                    _Broken.hits += 1
                    raise BrokenPipeError('injected: error stream is closed')
            _util._error_stream = _Broken()
        if fk == 'OUT-FLUSH-ERR':
            # the message stream is a block-buffered pipe whose reader has
            # gone: writes are accepted, a flush fails
            from pico8 import util as _util

            class _Unflushable:
                flushes = 0

                def write(self, msg):
                    return len(msg)

                def flush(self):
                    _Unflushable.flushes += 1
                    raise BrokenPipeError('injected: the message stream '
                                          'cannot be flushed')
            _util._write_stream = _Unflushable()
        tmp_saved = None
        tmp_hits = [0]
        if fk == 'TMP-ERR':
            # the scratch storage the writer stages its output in is full
            import errno as _errno
            import tempfile as _tempfile

            def _no_tmp(*a, **k):
                tmp_hits[0] += 1
                raise OSError(_errno.ENOSPC, 'injected: no space for a '
                              'temporary file')
            names = ('TemporaryFile', 'NamedTemporaryFile', 'mkstemp',
                     'SpooledTemporaryFile', 'mkdtemp')
            tmp_saved = {n: getattr(_tempfile, n) for n in names}
            for n in names:
                setattr(_tempfile, n, _no_tmp)
        with er as ctl:
            try:
                if recursion:
                    sys.setrecursionlimit(_stack_depth() + recursion)
                if tracer is not None:
                    sys.settrace(tracer.global_trace)
                rc = op()
            except BaseException as e:
                exc = e
            finally:
                sys.settrace(None)
                sys.setrecursionlimit(base_limit)
                if tmp_saved is not None:
                    import tempfile as _tempfile
                    for n, f in tmp_saved.items():
                        setattr(_tempfile, n, f)
        opens = w.stop_io_log()
        afters = [w.snap(d) for d in dests]
        after = afters[0]
        files_after = set(w.listing())

        op_failed = exc is not None or (rc not in (0, None))
        encoder_failed = ctl['entered'] > ctl['returned']
        failed = op_failed or encoder_failed
        fired = None
        if fk in ('W-ERR', 'W-TORN'):
            fired = ctl['fired']
        elif fk == 'CRASH':
            fired = 'CRASH' if tracer.fired else None
        elif fk == 'TMP-ERR':
            fired = fk if tmp_hits[0] else None
        elif fk == 'WARN-STREAM-ERR':
            fired = fk if _Broken.hits else None
        elif fk == 'OUT-FLUSH-ERR':
            fired = fk if _Unflushable.flushes else None
        elif fk == 'TOKENS-EDITED':
            # (a fact of the scenario, whatever status is reported: the code
            # handed to the .p8 encoder does not re-parse)
            fired = fk if _TOKENS_EDITED[0] else None
            if fired:
                core.bump(res['probes'], 'tokens-edited-after-a-save')
        elif fk != 'NONE':
            fired = fk if failed else None
        if fired:
            core.bump(res['faults'], fired if fk != 'CRASH'
                      else 'CRASH:' + fault['exc'])
        # A failed operation must leave its destination untouched.  Faults
        # are only ever injected until the encoder returns, so a failure that
        # shows up later (a check moved behind the copy, say) is the code's
        # own and counts.  A multi-file command legitimately rewrites the
        # carts it finished before the one that failed: destination d is
        # exempt iff a whole file.to_file(d) call returned normally.
        def produced(d):
            if len(dests) == 1:
                return False
            api = [c for c in ctl['writes_api'] if isinstance(c[0], str)]
            if not api:
                return True      # no attribution possible: no requirement
            full = os.path.normpath(w.p(d))
            return any(c[1] and os.path.normpath(os.path.join(
                w.root, c[0])) == full for c in api)
        bad_i = None
        for i, d in enumerate(dests):
            if failed and not produced(d) and befores[i] != afters[i]:
                bad_i = i
                break
        changed = befores != afters
        outcome = ('failed' if failed else 'ok') + (
            '+dest-changed' if changed else '')
        if exc is not None:
            outcome += ':' + type(exc).__name__
        if bad_i is not None:
            before, after, dest_rel = befores[bad_i], afters[bad_i], \
                dests[bad_i]
            if not before[0]:
                kind = 'created'
            elif not after[0]:
                kind = 'deleted'
            elif after[2] is not None and before[2] is not None and \
                    len(after[2]) < len(before[2]) and \
                    before[2].startswith(after[2]):
                kind = 'truncated'
            else:
                kind = 'modified'
            core.violation(
                res, 'C11', 'C11:dest-' + kind,
                'C11|%s|%s|%s|dest %s' % (sc['route'], sc['fmt'], fk, kind),
                'route=%s fmt=%s writer=%s prior=%s fault=%s: the operation '
                'failed (%s) but the destination %s was %s: before %s, after '
                '%s' % (sc['route'], sc['fmt'], sc.get('writer'),
                        sc['prior'], core.dumps(fault),
                        world.describe_exc(exc, w) if exc else
                        'rc=%r encoder_failed=%s' % (rc, encoder_failed),
                        dest_rel, kind, _snapdesc(before), _snapdesc(after)))
        if fk == 'WRITER-RAISE' and _LAST_RAISER[0] is not None and \
                _LAST_RAISER[0].raised[0] and not failed:
            fired = 'WRITER-RAISE'
        if fired and not failed and bad_i is None and befores != afters:
            # the fault fired, yet success is reported and the destination
            # changed: fine if the operation recovered and wrote the cart it
            # was asked to write; a swallowed failure that leaves something
            # else behind is a damaged destination
            problem = _not_the_intended_cart(sc, w, dests[0], afters[0])
            if problem:
                core.bump(res['probes'], 'success-reported-after-fault')
                core.violation(
                    res, 'C11', 'C11:failure-swallowed-dest-damaged',
                    'C11|%s|%s|%s|failure swallowed' % (
                        sc['route'], sc['fmt'], fk),
                    'route=%s fmt=%s fault=%s fired, the operation reported '
                    'success, and the destination %s is now neither what it '
                    'was nor the cart that was to be written: %s' % (
                        sc['route'], sc['fmt'], core.dumps(fault), dests[0],
                        problem))
            else:
                core.bump(res['probes'], 'recovered-after-fault')
        if not failed and not op_failed and fired is None and fk != 'NONE':
            res['informative'] = False
        # probes
        if failed and before[0]:
            core.bump(res['probes'], 'failed-with-existing-destination')
        if failed and sc.get('dest_dangling'):
            core.bump(res['probes'], 'failed-with-dangling-link-as-destination')
        if failed and sc.get('stale_fmt_sibling'):
            core.bump(res['probes'], 'failed-overwrite-beside-a-stale-fmt-sibling')
        if failed and len(dests) > 1 and ctl['returned'] == 1:
            core.bump(res['probes'], 'second-of-two-carts-failed')
        if failed and sc['route'] in ('lib-overwrite', 'luafmt-overwrite'):
            core.bump(res['probes'], 'failed-while-overwriting-input')
        if fired in ('W-ERR', 'W-TORN'):
            k = ctl['fired_at']
            tot = sc.get('_writes_total')
            core.bump(res['probes'], 'write-fault:' + (
                'first-write' if k == 0 else
                'last-write' if tot and k == tot - 1 else 'mid-stream'))
        if fk == 'CRASH' and tracer.fired:
            core.bump(res['probes'], 'crash-in:' + _area(tracer.fired))
            if fault['exc'] == 'KeyboardInterrupt' and exc is None and \
                    rc == 1:
                core.bump(res['probes'], 'KeyboardInterrupt-swallowed-by-main')
        if encoder_failed:
            core.bump(res['probes'], 'encoder-entered-and-failed')
        stray = sorted(files_after - files_before - set(dests))
        if failed and stray:
            core.bump(res['probes'], 'stray-files-after-failure(not-a-violation)')
        res['nontrivial'] = bool(failed and (fired or fk == 'NONE') and
                                 (ctl['entered'] or before[0]))
        site = ''
        if fk == 'CRASH':
            site = '%s:%s' % (fault['site'][0].split('/')[-1], tracer.fired[2]
                              if tracer.fired else 'not-reached')
        elif fk in ('W-ERR', 'W-TORN'):
            site = 'k-bucket-%d' % _bucket(fault['k'])
        elif fault:
            site = str(fault.get('how') or fault.get('which') or
                       fault.get('after') or fault.get('limit'))
        res['states'].append('|'.join((
            sc['route'], sc['fmt'], str(sc.get('writer')), sc['prior'], fk,
            site, outcome.split(':')[0])))
        core.bump(res['ops'], sc['route'])
        ev.append((sc['route'], sc['fmt'], sc.get('writer'), sc['prior'],
                   fault, outcome, ctl['writes'], ctl['entered'],
                   ctl['returned'], core.sha(after[2] or b'')[:16],
                   world.describe_exc(exc, w) if exc else None,
                   _stable_opens(opens, files_before | files_after |
                                 set(dests))))
        res['_ctl'] = {'writes': ctl['writes'], 'entered': ctl['entered'],
                       'returned': ctl['returned']}
        res['_failed'] = failed
        if profile:
            res['_profile'] = tracer.profile
            res['_steps'] = tracer.steps
    return res


def _not_the_intended_cart(sc, w, dest_rel, snap):
    """-> description of the problem, or None if the destination holds the
    cart that the operation was asked to write (data regions; the code too
    when the writer is echo-like)."""
    if sc['route'].startswith('build') or not snap[1]:
        return None
    if dest_rel.endswith('.rom'):
        return 'a .rom file was written although that encoder does not exist'
    try:
        got = refcodec.decode_any(dest_rel, snap[2])
    except (refcodec.RefCodecError, core.HarnessError) as e:
        return 'not a decodable cart: %s' % e
    want = refcodec.cart_from_spec(sc['cart'])
    for k in refcodec.REGIONS:
        if got[k] != want[k]:
            return 'region %s differs from the cart being written' % k
    fault = sc.get('fault') or {}
    echo_like = sc['route'] in ('lib', 'lib-overwrite', 'lib-twice',
                                'writep8', 'writep8-2files') and (
        fault.get('kind') == 'WRITER-RAISE' or
        sc.get('writer') in (None, 'default', 'LuaEchoWriter'))
    if echo_like and got['code'].rstrip(b'\n') != want['code'].rstrip(b'\n'):
        return 'code is %r..., the cart being written has %r...' % (
            got['code'][:80], want['code'][:80])
    return None


def _stable_opens(opens, known):
    """Write-opens for the event log; transient files with random names
    (temporary files when TMPDIR points into the store) are reduced to their
    directory so that the log stays a function of the scenario."""
    out = []
    for path, mode in opens:
        if mode != 'w':
            continue
        rel = path[len('$ROOT/'):] if path.startswith('$ROOT/') else path
        if rel in known:
            out.append(path)
        else:
            out.append(os.path.dirname(path) + '/<transient>')
    return out


def _stack_depth():
    f = sys._getframe()
    n = 0
    while f is not None:
        n += 1
        f = f.f_back
    return n


def _bucket(k):
    b = 0
    while k > 0:
        k >>= 1
        b += 1
    return b


def _snapdesc(s):
    if not s[0]:
        return 'absent'
    if not s[1]:
        return 'not a file'
    return '%d bytes sha %s' % (len(s[2]), core.sha(s[2])[:12])


def _area(fired):
    f, line, func = fired
    return '%s:%s' % (f.replace('pico8/', ''), func)


# ---------------------------------------------------------------------------
# jobs: one base scenario -> many faulted executions

def plan(prop, tier):
    if tier == 'quick':
        return {'runs': len(MATRIX), 'wall_cap': 900, 'chunk': 1,
                'opt_runs': 9}
    return {'runs': 3 * len(MATRIX), 'wall_cap': 6 * 3600, 'chunk': 1,
            'opt_runs': 40}


def jobs(prop, tier, seed, runs):
    out = []
    idxs = range(runs)
    if runs < len(MATRIX):
        # a reduced run (configuration slices): spread over the whole matrix,
        # shifted by the seed so that different slices see different rows
        idxs = [(int(j * len(MATRIX) / runs) + 5 * seed +
                 len(os.environ.get('PICOSIM_CONFIG', ''))) % len(MATRIX)
                for j in range(runs)]
    for i in idxs:
        full = tier == 'thorough' or (i < len(MATRIX) and
                                      MATRIX[i] in REPRESENTATIVE and
                                      MATRIX.index(MATRIX[i]) == i and
                                      not os.environ.get('PICOSIM_CONFIG'))
        nsplit = 8 if full else 1
        for j in range(nsplit):
            out.append({'kind': 'c11-writes', 'seed': seed, 'index': i,
                        'full': full, 'split': [j, nsplit], 'tier': tier})
        ncr = 2 if tier == 'quick' else 8
        if tier == 'quick' and i % 2:
            ncr = 1
        for j in range(ncr):
            out.append({'kind': 'c11-crash', 'seed': seed, 'index': i,
                        'part': j, 'n': 9 if tier == 'quick' else 40,
                        'tier': tier})
        out.append({'kind': 'c11-internal', 'seed': seed, 'index': i,
                    'tier': tier})
    return out


def _clean(sc):
    r = execute(sc)
    return r


def run_job(job):
    rng = core.derive_rng(job['seed'], 'C11-base', job['index'])
    base = base_scenario(rng, job['index'])
    out = []
    kind = job['kind']
    if kind == 'c11-writes':
        clean = core.isolated(execute, base)
        if job['split'][0] == 0:
            out.append((base, clean))
        total = (clean.get('_ctl') or {}).get('writes', 0)
        if total == 0:
            return _strip(out)
        j, n = job['split']
        if job['full']:
            ks = [k for k in range(total) if k % n == j]
        else:
            ks = sorted(set(
                [0, 1, 2, total - 1, total - 2] +
                [int(x * (total - 1) / 17) for x in range(18)] +
                [core.derive_rng(job['seed'], 'C11-k', job['index'] * 64 + x)
                 .randrange(total) for x in range(6)]))
            ks = [k for k in ks if 0 <= k < total]
        frng = core.derive_rng(job['seed'], 'C11-wf', job['index'])
        for k in ks:
            sc = dict(base, fault={'kind': 'W-ERR', 'k': k,
                                   'errno': frng.choice(['ENOSPC', 'EIO'])},
                      _writes_total=total)
            out.append((sc, core.isolated(execute, sc)))
            if job['full'] or k % 3 == 0:
                sc = dict(base, fault={'kind': 'W-TORN', 'k': k,
                                       'frac': frng.choice([0.0, 0.5, 0.99])},
                          _writes_total=total)
                out.append((sc, core.isolated(execute, sc)))
    elif kind == 'c11-crash':
        prof = core.isolated(execute, base, profile=True)
        sites = prof.get('_profile') or {}
        if not sites:
            return _strip(out)
        crng = core.derive_rng(job['seed'], 'C11-crash',
                               job['index'] * 16 + job['part'])
        # stratify by function: pick functions uniformly, then a site in the
        # function, then a hit index
        byfunc = {}
        for (f, line, func), hits in sites.items():
            byfunc.setdefault((f, func), []).append((line, hits))
        funcs = sorted(byfunc)
        for _ in range(job['n']):
            f, func = crng.choice(funcs)
            line, hits = crng.choice(sorted(byfunc[(f, func)]))
            hit = crng.choice([1, hits, crng.randint(1, hits)])
            exc = crng.choice(['SimCrash', 'SimCrash', 'MemoryError',
                               'KeyboardInterrupt'])
            sc = dict(base, fault={'kind': 'CRASH', 'site': [f, line],
                                   'hit': hit, 'exc': exc})
            out.append((sc, core.isolated(execute, sc)))
    elif kind == 'c11-internal':
        route = base['route']
        if route in LIB_ROUTES:
            faults = INTERNAL_FAULTS
        elif route.startswith('build'):
            faults = BUILD_INTERNAL_FAULTS
        else:
            faults = CLI_INTERNAL_FAULTS
        irng = core.derive_rng(job['seed'], 'C11-int', job['index'])
        pick = list(faults) if job['tier'] == 'thorough' else \
            irng.sample(list(faults), min(len(faults), 12))
        if base['fmt'] == 'png' and {'kind': 'CODE-TOO-BIG'} not in pick:
            pick.append({'kind': 'CODE-TOO-BIG'})
        if route.startswith('build'):
            # (round 8) two failure sources at once: the existing OUT cannot
            # be loaded, and the writer fails
            pick.append({'kind': 'ARG-BAD',
                         'how': 'out-unloadable-and-failing-writer'})
        for fl in pick:
            sc = dict(base, fault=dict(fl))
            if fl['kind'] == 'RECURSION':
                # give the recursion limit something to bite on
                cart = dict(sc['cart'], code=core.enc_bytes(
                    deep_code(irng.choice([10, 25, 45]))))
                sc['cart'] = cart
            if fl['kind'] == 'LABEL-BAD' and base['fmt'] != 'png':
                continue
            if fl['kind'] == 'CODE-TOO-BIG':
                # more code than the .p8.png code area holds even when
                # compressed (poorly compressible text)
                if base['fmt'] != 'png' or (
                        job['tier'] == 'quick' and (
                            job['index'] % 8 or
                            os.environ.get('PICOSIM_CONFIG'))):
                    continue           # (each such run costs seconds)
                sc['cart'] = dict(sc['cart'], code={'$bigtext': 24000})
            if fl['kind'] == 'WARN-STREAM-ERR':
                # enough tokens to make the writer warn on the (broken)
                # error stream in the middle of producing the cart
                sc['cart'] = dict(sc['cart'], code=core.enc_bytes(
                    b'x=1 ' * 2800 + b'\n'))
            out.append((sc, core.isolated(execute, sc)))
    else:
        raise core.HarnessError(kind)
    return _strip(out)


def _strip(out):
    for sc, r in out:
        for k in [k for k in r if k.startswith('_')]:
            r.pop(k)
    return out


def generate(rng, prop, tier, index):
    return base_scenario(rng, index)


# ---------------------------------------------------------------------------
# shrinking

def shrink(sc):
    fault = sc.get('fault') or {}
    # simpler cart contents
    for which in ('cart', 'prior_cart'):
        spec = sc[which]
        if any(v != 'empty' for v in spec['regions'].values()):
            yield dict(sc, **{which: dict(spec, regions={
                k: 'empty' for k in spec['regions']})})
        if spec.get('label'):
            yield dict(sc, **{which: dict(spec, label=None)})
        code = core.dec_bytes(spec['code'])
        if code != CODE_SAMPLES[1] and fault.get('kind') != 'RECURSION':
            yield dict(sc, **{which: dict(spec, code=core.enc_bytes(
                CODE_SAMPLES[1]))})
    if sc['prior'] not in ('absent', 'cart') and sc['route'] == 'lib':
        yield dict(sc, prior='cart')
    if sc.get('build'):
        b = sc['build']
        for k in ('gfx', 'sfx'):
            if b.get(k) != 'none':
                yield dict(sc, build=dict(b, **{k: 'none'}))
    if fault.get('kind') == 'W-TORN':
        yield dict(sc, fault={'kind': 'W-ERR', 'k': fault['k'],
                              'errno': 'EIO'})
    if fault.get('kind') in ('W-ERR', 'W-TORN') and fault['k'] > 0:
        for k in (0, fault['k'] // 2, fault['k'] - 1):
            yield dict(sc, fault=dict(fault, k=k))
    if fault.get('kind') == 'CRASH':
        if fault['exc'] != 'SimCrash':
            yield dict(sc, fault=dict(fault, exc='SimCrash'))
        if fault['hit'] > 1:
            yield dict(sc, fault=dict(fault, hit=1))
            yield dict(sc, fault=dict(fault, hit=fault['hit'] // 2))
    if sc.get('writer') not in (None, 'default') and sc['route'] in LIB_ROUTES:
        yield dict(sc, writer='default', writer_args=None)


RULE = {
    'C11': 'base scenarios laid out over the matrix route {file.to_file, '
           'file.to_file over its own input, tool.main writep8 / luamin / '
           'luafmt / luafmt --overwrite / build / build --lua-minify} x '
           'destination format {.p8, .p8.png} x Lua writer (8) x prior '
           'destination state {absent, valid cart, garbage, empty}, contents '
           'seeded; per base: W-ERR and W-TORN at write indices k of the '
           'encoder stream (every k for the representative bases in quick and '
           'for all bases in thorough; 24 evenly spaced + first/last + 8 '
           'seeded k otherwise), crashes (SimCrash / MemoryError / '
           'KeyboardInterrupt) at seeded (site, hit) pairs stratified by '
           'function from a traced clean run, and internal failure sources '
           '(raising / garbage / non-bytes writers, unencodable sections, bad '
           'label sources, bad CLI arguments, lowered recursion limit). '
           'distinct = distinct tuples (route, format, writer, prior state, '
           'fault kind, crash function or write-index bucket or failure '
           'source, outcome class); non-trivial iff the operation failed with '
           'the fault fired while the encoder had been entered or the '
           'destination existed',
}

ASSUMPTIONS = {
    'C11': [
        'faults are injected only until the formatter to_file returns '
        'normally; the final copy into the destination is outside the '
        'statement (its premise is that producing the cart fails)',
        'crash points are Python line boundaries in frames of /repo/pico8',
        'a run whose operation reports success is uninformative and counted '
        'as such; nothing is required of it',
        'other files changing or stray files appearing are logged, not '
        'violations (a temp-file-then-rename refactor must pass)',
    ],
}

REQUIRED_PROBES = {
    ('C11', 'quick'): ['failed-with-existing-destination',
                       'failed-while-overwriting-input',
                       'write-fault:first-write', 'write-fault:mid-stream',
                       'write-fault:last-write', 'encoder-entered-and-failed',
                       'KeyboardInterrupt-swallowed-by-main'],
}


def coverage_extra(prop, tier, agg, jobs_):
    full = sorted({j['index'] for j in jobs_ if j.get('full')})
    return {
        'write_index_enumeration': 'every write index k of the encoder '
        'stream (W-ERR and W-TORN) for base scenarios %s; strided for the '
        'others' % (full if tier == 'quick' else 'all'),
        'exhaustive': False,
    }


RULE_MORE = {'C11': ' Added in the build rounds: multi-file commands (per-destination attribution through a wrapper on file.to_file), a write that succeeds before the faulted one, .rom destination, TMP-ERR (no scratch file), broken error stream while warnings are emitted, writer exceptions of 13 types incl. the abstract BaseLuaWriter, glyph code, destination as symbolic link, names with spaces and dots, relative arguments and cwd, TMPDIR in the destination directory, earlier successful / failed operations in the same process, and the rule that a failure the code raises after the encoder returned counts while a success reported after a fired fault must leave either the old file or the intended cart. Round 6: the cart a game was loaded from may be moved away before the game is saved under another name. Round 7: a message stream that accepts writes but cannot be flushed (block-buffered pipe whose reader is gone); the token list of a game edited after an earlier save with the same writer, so that the .p8 encoder is handed code that does not re-parse (counts as a fired fault whatever status is reported). Round 8: destination names that are dangling symbolic links (nothing is there before, nothing may be there after a failure); a stale <name>_fmt sibling beside a cart that `luafmt --overwrite` fails to rewrite; build with two failure sources at once (the existing OUT cannot be loaded - a cart with a missing include, a broken PNG - and the writer fails).'}
