"""Engine `lexstream` (C07, partial): the lexer as a resumable stream consumer.

Decides (a) that tokenisation does not depend on how the text is chunked at
line ends ("short reads" of the input stream) nor on the delivery form (list,
generator, binary file object), and (b) that it does not depend on the one
hidden process-level nondeterminism source, PYTHONHASHSEED (the keyword
regexes are built by iterating a set).  It does NOT decide that the token list
is the one the grammar dictates.
"""

import io
import json
import os
import subprocess
import sys

from picosim import core

NAME = 'lexstream'
PROPS = ('C07',)

KEYWORDS = ['and', 'break', 'do', 'else', 'elseif', 'end', 'false', 'for',
            'function', 'goto', 'if', 'in', 'local', 'nil', 'not', 'or',
            'repeat', 'return', 'then', 'true', 'until', 'while']
SYMBOLS = ['+=', '-=', '*=', '/=', '%=', '..=', '==', '~=', '!=', '<=', '>=',
           '&', '|', '^^', '~', '<<>', '>>>', '>><', '<<', '>>', '\\', '+',
           '-', '*', '/', '%', '^', '#', '@', '$', '<', '>', '=', '(', ')',
           '{', '}', '[', ']', ';', ':', ',', '...', '..', '.']
NUMBERS = ['0', '1', '42', '3.14', '.5', '5.', '1e3', '1e-3', '2.5e2', '0x1f',
           '0X1F', '0x.8', '0xa.b', '0b101', '0B11', '0b.1', '0b1.01',
           '32767', '0x7fff.ffff']


def gen_source(rng):
    """A source text rich in multi-line tokens; not necessarily a valid
    program (the lexer does not care), usually lexable."""
    out = []
    n = rng.choice([1, 3, 8, 15, 30, 60])
    for _ in range(n):
        r = rng.random()
        if r < 0.14:
            out.append(rng.choice(KEYWORDS))
        elif r < 0.30:
            if rng.random() < 0.12:
                # ordinary glyph bytes that happen to spell a UTF-8 BOM (or a
                # prefix of one), at the start of a line
                out.append('\n' + rng.choice(['\xef\xbb\xbfname',
                                              '\xef\xbb\xbf',
                                              '\xef\xbbx', '\xfe\xffy',
                                              '\xff\xfez']))
                continue
            base = rng.choice(['x', 'foo', '_a1', 'andy', 'end_', 'notx',
                               'for1', 'elseif2', 'iff', 'orb', 'ifelse',
                               'function_', 'ends', 'do_', 'nil0', 'e',
                               'x\x80\x99', '\x8bbtn'])
            out.append(base)
        elif r < 0.42:
            out.append(rng.choice(NUMBERS))
        elif r < 0.56:
            out.append(rng.choice(SYMBOLS))
        elif r < 0.66:
            q = rng.choice(['"', "'"])
            body = rng.choice(['', 'abc', 'a b', 'x\\n', 'q\\"q', "q\\'q",
                               '\\065\\10', 'tab\\t', 'back\\\\',
                               'line1\\\nline2', 'raw\nnewline',
                               'cr\\\r\nlf', 'a--b', 'a[[b]]', '\\*3x',
                               'two\nraw\nlines', 'a,\\z\n    b',
                               'z\\z  \n\n  y', 'x\\\n\n  y'])
            if q in body.replace('\\' + q, ''):
                body = body.replace(q, '')
            out.append(q + body + q)
        elif r < 0.76:
            lvl = rng.choice([0, 0, 1, 2, 3])
            eq = '=' * lvl
            body = rng.choice(['', 'one line', 'two\nlines', '\nleading nl',
                               'trailing nl\n', 'a]]b' if lvl else 'a]b',
                               'x]=]y' if lvl != 1 else 'x]==]y',
                               '--[[ not a comment', 'three\n\nlines\n',
                               '"quoted"', 'cr\r\nlf'])
            out.append('[' + eq + '[' + body + ']' + eq + ']')
        elif r < 0.84:
            body = rng.choice(['', ' one line ', ' two\nlines ', '\n\n',
                               ' with "quote\n and [[ inner\n', ' x ]=] y ',
                               ' cr\r\nlf '])
            out.append('--[[' + body + ']]')
        elif r < 0.90:
            out.append(rng.choice(['-- line comment', '// slash comment',
                                   '--[==[ not multi ]==]', '--', '-- [[ x',
                                   '--[ [x']) + '\n')
        elif r < 0.94:
            nm = rng.choice(['l1', 'top', '_x'])
            if rng.random() < 0.35:
                # the parts of a label spread over lines
                def gap():
                    return rng.choice(['\n', ' ', ' \n ', '\n\n', '\t',
                                       '\r\n', '\n'])
                nm = gap() + nm + gap()
            out.append('::' + nm + '::')
        else:
            out.append(rng.choice(['?', '?"hi"', 'if (x) y=1', 'a.b:c()']))
        out.append(rng.choice([' ', ' ', '  ', '\t', '\n', '\n', '\n\n',
                               '\r\n', '', '', ' \n ', '\r']))
    if rng.random() < 0.1:
        out.append(rng.choice(['"unterminated', '[[ open long', '--[[ open',
                               "'open\n", '`', '[=[ x ]]']))
    return ''.join(out).encode('latin-1')


def gen_big_source(rng):
    """Large multi-line tokens whose sizes sit on and around the powers of
    two at which buffering or windowing optimisations change behaviour."""
    parts = []
    for _ in range(rng.choice([1, 2, 3])):
        size = rng.choice([1024, 2048, 4096, 8192, 16384]) + rng.choice(
            [-3, -2, -1, 0, 1, 2, 3, rng.randint(-40, 40)])
        kind = rng.choice(['comment', 'long', 'quoted', 'long2'])
        filler = []
        n = 0
        while n < size:
            ln = rng.choice(['x', 'lorem ipsum', 'a]b', 'q\\q', '--', ']',
                             'abc def ghi jkl', '0123456789' * 3])
            filler.append(ln)
            n += len(ln) + 1
        body = '\n'.join(filler)[:max(0, size)]
        pad = ' ' * rng.choice([0, 1, 2, 3, 5])
        if kind == 'comment':
            parts.append(pad + '--[[' + body.replace(']]', '] ]') + ']]')
        elif kind == 'long':
            parts.append(pad + 's=[[' + body.replace(']]', '] ]') + ']]')
        elif kind == 'long2':
            parts.append(pad + 's=[==[' + body.replace(']==]', ']= =]') +
                         ']==]')
        else:
            b2 = body.replace('"', "'").replace('\\', '/').replace(
                '\n', '\\\n')
            parts.append(pad + 's="' + b2 + '"')
        parts.append(rng.choice(['\n', ' x=1\n', '\n\n']))
    return ''.join(parts).encode('latin-1')


def gen_valid_source(rng):
    """A parseable program (ASCII) rich in multi-line tokens, lone CRs
    inside comments, CRLF line ends and escapes."""
    out = []
    n = rng.choice([1, 2, 4, 8, 14])
    for k in range(n):
        r = rng.random()
        if r < 0.2:
            out.append('mk_%d=%d' % (k, k))
        elif r < 0.3:
            out.append('local s_%d="a\\nb\\"c\\065"' % k)
        elif r < 0.42:
            out.append('s_%d=[[long %d\nstring\n]] mk_%d=%d' % (k, k, k, k))
        elif r < 0.5:
            out.append('s_%d=[==[x]]y\nz]==]' % k)
        elif r < 0.62:
            out.append('--[[ block %d\ncomment\n]] mk_%d=%d' % (k, k, k))
        elif r < 0.7:
            out.append('-- line comment\rwith a lone cr %d' % k)
        elif r < 0.76:
            out.append('// slash comment\rcr %d' % k)
        elif r < 0.79:
            out.append('s_%d="skip,\\z\n     white %d"' % (k, k))
        elif r < 0.82:
            out.append('s_%d="continued\\\nline %d"' % (k, k))
        elif r < 0.9:
            out.append('if mk_0 then mk_%d=%d end' % (k, k))
        else:
            out.append('function f_%d(a)\n local z=%d -- c\n return a+z\nend'
                       % (k, k))
        out.append(rng.choice(['\n', '\n', '\n\n', '\r\n', ' \n']))
    return ''.join(out).encode('ascii')


def line_ends(src):
    return [i + 1 for i, c in enumerate(src) if c == 10 and i + 1 < len(src)]


def chunk(src, cuts):
    out = []
    prev = 0
    for c in cuts:
        out.append(src[prev:c])
        prev = c
    out.append(src[prev:])
    return out


def lex(chunks_iterable, api='lexer'):
    """-> ('ok', [token tuples]) or ('error', class, lineno, charno)."""
    from pico8.lua import lexer, lua
    try:
        if api == 'lua':
            toks = lua.Lua.from_lines(chunks_iterable, version=33).tokens
        else:
            lx = lexer.Lexer(version=33)
            lx.process_lines(chunks_iterable)
            toks = lx.tokens
    except lexer.LexerError as e:
        return ('error', type(e).__name__, getattr(e, 'lineno', None),
                getattr(e, 'charno', None))
    except Exception as e:
        return ('error', type(e).__name__, str(e)[:80], None)
    out = []
    for t in toks:
        try:
            val = t.value
        except Exception as e:
            val = 'value-raised:' + type(e).__name__
        try:
            code = t.code
        except Exception as e:
            code = 'code-raised:' + type(e).__name__
        out.append((type(t).__name__, bytes(t._data).hex()
                    if isinstance(t._data, (bytes, bytearray))
                    else repr(t._data),
                    repr(val), repr(code), t._lineno, t._charno))
    return ('ok', out)


def _safe_batch_ends(src, ends, seed):
    """Line ends (a sample of at most 10) at which the text so far consists of
    complete tokens: the lexer accepts the prefix on its own."""
    from pico8.lua import lexer
    rng = core.derive_rng(seed, 'batch-ends', 0)
    cand = sorted(rng.sample(ends, min(len(ends), 10)))
    out = []
    for o in cand:
        lx = lexer.Lexer(version=33)
        try:
            lx.process_lines([src[:o]])
        except Exception:
            continue
        out.append(o)
    return out


def lex_batches(chunks, per):
    """The text appended to one long-lived Lua object in batches of `per`
    chunks (the documented way to add lines to a cart's code).  A batch that
    ends inside a block makes the parser reject the program so far; the
    caller carries on with the next batch."""
    from pico8.lua import lexer, lua, parser
    obj = lua.Lua(33)
    batches = [chunks[i:i + per] for i in range(0, len(chunks), per)]
    for i, b in enumerate(batches):
        try:
            obj.update_from_lines(b)
        except parser.ParserError as e:
            if i == len(batches) - 1:
                return ('error', type(e).__name__, str(e)[:80], None)
        except lexer.LexerError as e:
            return ('error', type(e).__name__, getattr(e, 'lineno', None),
                    getattr(e, 'charno', None))
        except Exception as e:
            return ('error', type(e).__name__, str(e)[:80], None)
    return lex_tokens(obj.tokens)


def interleaved(chunks, seed, api):
    """Cooperative interleaving of two lexers: between two chunks of the
    lexer under test, a second, independent lexer is fed a whole other
    source rich in multi-line tokens (what a lazily expanded #include of a
    cart does)."""
    rng = core.derive_rng(seed, 'interleave', 0)
    others = [gen_source(rng) for _ in range(3)] + [
        b'--[[ other\ncomment ]] y=[[other\nstring]] z="o\\\nther"\n']
    for i, c in enumerate(chunks):
        lex([others[i % len(others)]], api)
        yield c


def deliver(chunks, form):
    if form == 'list':
        return list(chunks)
    if form == 'tuple':
        return tuple(chunks)
    if form == 'gen':
        return (c for c in chunks)
    if form == 'file':
        # a binary file object iterates by '\n'-terminated lines
        return io.BytesIO(b''.join(chunks))
    if form == 'file-offset':
        # a file object whose first line (front matter of the caller's own)
        # has been read already: the program starts at the current position
        fh = io.BytesIO(b'#!front matter, not part of the program "\n' +
                        b''.join(chunks))
        fh.readline()
        return fh
    raise core.HarnessError(form)


# ---------------------------------------------------------------------------

def generate(rng, prop, tier, index):
    kind = 'gen'
    sc = {'engine': NAME, 'mode': 'chunk'}
    if index % 40 == 39:
        return {'engine': NAME, 'mode': 'hashseed',
                'src_seed': rng.randrange(10**9), 'count': 40,
                'hashseeds': ['1', '2', '3', str(rng.randrange(4, 10**6))]}
    if index % 10 == 5:
        if index % 50 == 15:
            # lexable, not parseable: every route has to fail alike
            src_ = gen_valid_source(rng) + rng.choice(
                [b'\ny = = 2\n', b'\nif x then\n', b'\nend\n',
                 b'\nz = (1\n\n'])
        elif rng.random() < 0.8:
            src_ = gen_valid_source(rng)
        else:
            src_ = gen_source(rng).decode('latin-1').encode('ascii',
                                                            'replace')
        return {'engine': NAME, 'mode': 'file',
                'src': core.enc_bytes(src_),
                'routes': ['p8file', 'p8include', 'p8include2',
                           'p8include-tab-then-all', 'p8include-after-failed',
                           'p8include-carts-two-dirs', 'cli-listtokens'] + (
                    ['p8include-big-lua'] if index % 50 in (35, 45) else [])}
    if index % 25 == 7:
        sc['src'] = {'$corpus': index // 25}
    elif index % 10 == 3:
        sc['src'] = core.enc_bytes(gen_big_source(rng))
        sc['big'] = True
    else:
        sc['src'] = core.enc_bytes(gen_source(rng))
    # another lexer is stepped between the chunks of this one
    if rng.random() < 0.3:
        sc['interleave'] = rng.randrange(10**9)
    sc['api'] = rng.choice(['lexer', 'lexer', 'lua'])
    sc['cut_seeds'] = [rng.randrange(10**9) for _ in range(20)]
    return sc


_CORPUS = None


def corpus():
    """Code of the carts in tests/testdata (read with the reference codecs)."""
    global _CORPUS
    if _CORPUS is None:
        from picosim import refcodec
        out = []
        td = os.path.join(core.REPO, 'tests', 'testdata')
        for n in sorted(os.listdir(td)) if os.path.isdir(td) else []:
            p = os.path.join(td, n)
            try:
                with open(p, 'rb') as fh:
                    data = fh.read()
                if n.endswith('.p8'):
                    out.append(refcodec.decode_p8(data)['code'])
                elif n.endswith('.p8.png'):
                    out.append(refcodec.decode_p8png(data)['code'])
            except Exception:
                continue
        out = [c for c in out if c]
        _CORPUS = out or [b'x=1\n']
    return _CORPUS


def _src(sc):
    s = sc['src']
    if isinstance(s, dict) and '$corpus' in s:
        c = corpus()
        return c[s['$corpus'] % len(c)]
    return core.dec_bytes(s)


def execute_file(sc):
    """The same code reaches the lexer through the cart loaders: as the code
    of a .p8 file (per-line chunks), as the code of a cart #included by a
    .p8 (echo-writer lines: multi-line tokens inside one chunk), and as
    .p8 vs .p8.png on the command line.  The token list must be the one the
    single-chunk lexing gives."""
    from picosim import refcodec, world
    from pico8 import tool
    from pico8.game import file as pfile
    res = core.new_result()
    ev = res['events']
    src = _src(sc)
    if not src.endswith(b'\n'):
        src += b'\n'
    base = lex([src], 'lua')
    core.bump(res['ops'], 'lex-through-loader')
    outcomes = []
    with world.World() as w:
        cart = refcodec.make_cart(version=33, code=src)
        w.put('a/code.p8', refcodec.encode_p8(cart))
        w.put('a/main.p8', refcodec.encode_p8(refcodec.make_cart(
            version=33, code=b'#include code.p8\n')))
        w.put('a/main2.p8', refcodec.encode_p8(refcodec.make_cart(
            version=33, code=b'#include code.p8\n#include code.p8\n')))
        w.put('a/main3.p8', refcodec.encode_p8(refcodec.make_cart(
            version=33, code=b'#include code.p8:0\n#include code.p8\n')))

        def load(rel):
            try:
                g = pfile.from_file(w.p(rel))
                return lex_tokens(g.lua.tokens)
            except Exception as e:
                from pico8.lua import lexer
                if isinstance(e, lexer.LexerError):
                    return ('error', type(e).__name__,
                            getattr(e, 'lineno', None),
                            getattr(e, 'charno', None))
                return ('error', type(e).__name__, str(e)[:80], None)
        for route in sc.get('routes', []):
            if route == 'p8file':
                got = load('a/code.p8')
            elif route == 'p8include-carts-two-dirs':
                # two projects in the PICO-8 carts folder, each with a
                # lib.lua of its own; the other one is loaded first
                cd = 'home/.lexaloffle/pico-8/carts/'
                inc = refcodec.encode_p8(refcodec.make_cart(
                    version=33, code=b'#include lib.lua\n'))
                w.put(cd + 'one/main.p8', inc)
                w.put(cd + 'one/lib.lua', b'other_project_lib=1\n')
                w.put(cd + 'two/main.p8', inc)
                w.put(cd + 'two/lib.lua', src)
                load(cd + 'one/main.p8')
                got = load(cd + 'two/main.p8')
            elif route in ('p8include-tab-then-all', 'p8include-after-failed'):
                try:
                    from pico8.lua import lua as _lua
                    echoed = b''.join(_lua.Lua.from_lines(
                        [src], version=33).to_lines())
                except Exception:
                    continue
                if route == 'p8include-tab-then-all':
                    if b'-->8' in src:
                        continue       # keep the reference splice trivial
                    # a two-tab cart included first by tab, then whole: the
                    # selector of the first line must not stick to the second
                    two = src + b'-->8\ntabtwo_marker=1\n'
                    w.put('a/code2.p8', refcodec.encode_p8(refcodec.make_cart(
                        version=33, code=two)))
                    w.put('a/main3.p8', refcodec.encode_p8(refcodec.make_cart(
                        version=33,
                        code=b'#include code2.p8:1\n#include code2.p8\n')))
                    try:
                        whole = b''.join(_lua.Lua.from_lines(
                            [two], version=33).to_lines())
                    except Exception:
                        continue
                    got = load('a/main3.p8')
                    ref = lex([b'tabtwo_marker=1\n' + whole], 'lua')
                else:
                    # an earlier load failed inside the very cart that is
                    # included now (it was broken then and has been repaired)
                    good = w.snap('a/code.p8')[2]
                    w.put('a/code.p8', refcodec.encode_p8(refcodec.make_cart(
                        version=33, code=b'x = "broken\n')))
                    load('a/main.p8')
                    w.put('a/code.p8', good)
                    got = load('a/main.p8')
                    ref = lex([echoed], 'lua')
                core.bump(res['faults'], 'CHUNK')
                if got != ref:
                    core.violation(
                        res, 'C07', 'C07:chunk-dependent-tokens',
                        'C07|chunk-dependent|tokens|via ' + route,
                        'source %r through %s: tokens differ from the '
                        '(echoed) text lexed as one chunk: %s vs %s' % (
                            src[:300], route, str(got)[:300], str(ref)[:300]))
                    break
                outcomes.append(route + ':same')
                continue
            elif route == 'p8include2':
                # the same cart included twice: the token list is the one of
                # the (echoed) text twice over
                got = load('a/main2.p8')
                try:
                    from pico8.lua import lua as _lua
                    echoed = b''.join(_lua.Lua.from_lines(
                        [src], version=33).to_lines())
                    ref = lex([echoed + echoed], 'lua')
                except Exception:
                    continue
                core.bump(res['faults'], 'CHUNK')
                if got != ref:
                    core.violation(
                        res, 'C07', 'C07:chunk-dependent-tokens',
                        'C07|chunk-dependent|tokens|via p8include twice',
                        'source %r included twice from a cart: tokens differ '
                        'from the (echoed) text lexed as one chunk: %s vs %s'
                        % (src[:300], str(got)[:300], str(ref)[:300]))
                    break
                outcomes.append(route + ':same')
                continue
            elif route == 'p8include-big-lua':
                # a library of more than 64 KiB (picotool warns about size
                # only when it writes a cart) included as a .lua file
                big = src + b''.join(b'bigfill_%d=%d\n' % (i, i)
                                     for i in range(5200))
                w.put('a/big.lua', big)
                w.put('a/mainbig.p8', refcodec.encode_p8(refcodec.make_cart(
                    version=33, code=b'#include big.lua\n')))
                got = load('a/mainbig.p8')
                ref = lex([big], 'lua')
                core.bump(res['faults'], 'CHUNK')
                core.bump(res['probes'], 'include-file-larger-than-64KiB')
                if got != ref:
                    core.violation(
                        res, 'C07', 'C07:chunk-dependent-tokens',
                        'C07|chunk-dependent|tokens|via big .lua include',
                        'a %d-byte .lua file included from a cart: %s tokens '
                        'against %s when the same text is lexed as one chunk'
                        % (len(big), len(got[1]) if got[0] == 'ok' else got,
                           len(ref[1]) if ref[0] == 'ok' else ref))
                    break
                outcomes.append(route + ':same')
                continue
            elif route == 'p8include':
                got = load('a/main.p8')
                # an included cart's code is re-serialised by the echo writer
                # before it is spliced (which may respell string escapes:
                # that is C06's business); the reference for this route is
                # therefore that text lexed as one chunk
                try:
                    from pico8.lua import lua as _lua
                    echoed = b''.join(_lua.Lua.from_lines(
                        [src], version=33).to_lines())
                    ref = lex([echoed], 'lua')
                except Exception:
                    ref = base
                if got != ref:
                    core.bump(res['faults'], 'CHUNK')
                    core.violation(
                        res, 'C07', 'C07:chunk-dependent-tokens',
                        'C07|chunk-dependent|tokens|via p8include',
                        'source %r included from a cart: tokens differ '
                        'from the same (echoed) text lexed as one chunk: '
                        '%s vs %s' % (src[:300], str(got)[:300],
                                      str(ref)[:300]))
                    break
                got = base
            elif route == 'cli-listtokens':
                if b'\r' in src:
                    continue       # the .p8.png reader rewrites CR itself
                w.put('a/code.p8.png', refcodec.encode_p8png(cart))
                outs = []
                for f in ('a/code.p8', 'a/code.p8.png'):
                    w.out.seek(0)
                    w.out.truncate(0)
                    try:
                        rc = tool.main(['listtokens', w.p(f)])
                    except BaseException as e:
                        rc = 'raised ' + type(e).__name__
                    outs.append((rc, w.out.getvalue().rstrip()))
                core.bump(res['faults'], 'CHUNK')
                if outs[0] != outs[1]:
                    core.violation(
                        res, 'C07', 'C07:chunk-dependent-listtokens',
                        'C07|listtokens differs between .p8 and .p8.png',
                        'source %r: `p8tool listtokens` gives (%r, %r...) '
                        'for the .p8 and (%r, %r...) for the .p8.png with the '
                        'same code' % (src[:200], outs[0][0], outs[0][1][:150],
                                       outs[1][0], outs[1][1][:150]))
                    break
                outcomes.append(route + ':same')
                continue
            core.bump(res['faults'], 'CHUNK')
            if got != base:
                if base[0] == 'ok' and got[0] == 'ok':
                    i = next((j for j in range(min(len(base[1]),
                                                   len(got[1])))
                              if base[1][j] != got[1][j]),
                             min(len(base[1]), len(got[1])))
                    detail = 'token %d: one chunk %s, through %s %s' % (
                        i, base[1][i] if i < len(base[1]) else '(none)',
                        route, got[1][i] if i < len(got[1]) else '(none)')
                    field = 'tokens'
                    if i < len(base[1]) and i < len(got[1]) and \
                            base[1][i][:4] == got[1][i][:4]:
                        field = 'position'
                else:
                    detail = 'one chunk: %s; through %s: %s' % (
                        str(base)[:200], route, str(got)[:200])
                    field = 'error'
                core.violation(
                    res, 'C07', 'C07:chunk-dependent-' + field,
                    'C07|chunk-dependent|%s|via %s' % (field, route),
                    'source %r loaded through %s: %s' % (src[:300], route,
                                                         detail))
                break
            outcomes.append(route + ':same')
    core.bump(res['probes'], 'lexed-through-cart-loaders')
    if b'\r' in src.replace(b'\r\n', b''):
        core.bump(res['probes'], 'lone-cr-in-source')
    res['states'].append('file|%s|%s' % (
        base[0], 'violation' if res['violations'] else ','.join(outcomes)))
    res['nontrivial'] = bool(outcomes) or bool(res['violations'])
    ev.append(('file', core.sha(src)[:16], base[0], outcomes))
    return res


def lex_tokens(toks):
    out = []
    for t in toks:
        try:
            val = t.value
        except Exception as e:
            val = 'value-raised:' + type(e).__name__
        try:
            code = t.code
        except Exception as e:
            code = 'code-raised:' + type(e).__name__
        out.append((type(t).__name__, bytes(t._data).hex()
                    if isinstance(t._data, (bytes, bytearray))
                    else repr(t._data),
                    repr(val), repr(code), t._lineno, t._charno))
    return ('ok', out)


def execute(sc):
    if sc['mode'] == 'hashseed':
        return execute_hashseed(sc)
    if sc['mode'] == 'file':
        return execute_file(sc)
    res = core.new_result()
    ev = res['events']
    src = _src(sc)
    api = sc.get('api', 'lexer')
    base = lex([src], api)
    ends = line_ends(src)
    core.bump(res['ops'], 'lex:' + api)
    deliveries = [('all', ends, 'list'), ('all', ends, 'file'),
                  ('all', ends, 'gen'), ('all', ends, 'file-offset')]
    if sc.get('cuts') is not None:
        deliveries = [('given', sc['cuts'], sc.get('form', 'list'))]
    else:
        for cs in sc.get('cut_seeds', []):
            rng = core.derive_rng(cs, 'cuts', 0)
            if not ends:
                break
            k = rng.randint(0, len(ends))
            cuts = sorted(rng.sample(ends, k))
            deliveries.append(('subset', cuts, rng.choice(
                ['list', 'gen', 'tuple'])))
    multi = _multiline_kinds(base)
    n_split_inside = 0
    if sc.get('interleave') is not None and sc.get('cuts') is None:
        deliveries.append(('interleaved-all', ends, 'interleaved'))
        deliveries.append(('interleaved-none', [], 'interleaved'))
        core.bump(res['probes'], 'second-lexer-interleaved')
    if sc.get('big'):
        core.bump(res['probes'], 'big-multi-line-token')
    if api == 'lua' and base[0] == 'ok' and sc.get('cuts') is None and ends:
        # appended to one object in batches: a batch may end inside a block
        # (the parser then rejects the program so far), but not inside a
        # token - each call has to bring complete tokens
        safe = _safe_batch_ends(src, ends, (sc.get('cut_seeds') or [0])[0])
        if safe:
            deliveries.append(('batches-1', safe, 'batches:1'))
            deliveries.append(('batches-2', safe, 'batches:2'))
            core.bump(res['probes'], 'appended-in-batches')
    for tag, cuts, form in deliveries:
        chunks = chunk(src, cuts)
        if form.startswith('batches:'):
            got = lex_batches(list(chunks), int(form[8:]))
        elif form == 'interleaved':
            got = lex(interleaved(chunks, sc.get('interleave') or 0, api),
                      api)
        else:
            got = lex(deliver(chunks, form), api)
        core.bump(res['faults'], 'CHUNK')
        if got != base:
            if base[0] == 'ok' and got[0] == 'ok':
                i = next((j for j in range(min(len(base[1]), len(got[1])))
                          if base[1][j] != got[1][j]),
                         min(len(base[1]), len(got[1])))
                detail = ('token %d differs: one chunk %s, chunked %s' % (
                    i, base[1][i] if i < len(base[1]) else '(none)',
                    got[1][i] if i < len(got[1]) else '(none)'))
                field = 'tokens'
                if i < len(base[1]) and i < len(got[1]):
                    a, b = base[1][i], got[1][i]
                    if a[:4] == b[:4]:
                        field = 'position'
            else:
                detail = 'one chunk: %s; chunked: %s' % (
                    str(base)[:200], str(got)[:200])
                field = 'error'
            core.violation(
                res, 'C07', 'C07:chunk-dependent-' + field,
                'C07|chunk-dependent|%s|%s' % (field, ','.join(multi) or '-'),
                'source %r delivered as %s with cuts after bytes %s (%s): %s'
                % (src[:300], form, cuts[:20], tag, detail))
            break
        if cuts:
            n_split_inside += 1
    for m in multi:
        core.bump(res['probes'], 'multi-line-token:' + m)
    if base[0] == 'error':
        core.bump(res['probes'], 'unlexable-source')
    res['states'].append('%s|%s|%s|%d-deliveries|%s' % (
        api, base[0], ','.join(multi) or '-', min(len(deliveries), 9),
        'violation' if res['violations'] else 'same'))
    res['nontrivial'] = bool(ends) and n_split_inside > 0
    ev.append((core.sha(src)[:16], api, base[0], len(deliveries),
               core.sha(base)[:16]))
    return res


def _multiline_kinds(base):
    kinds = set()
    if base[0] != 'ok':
        return []
    for t in base[1]:
        data = bytes.fromhex(t[1]) if all(c in '0123456789abcdef'
                                          for c in t[1]) else b''
        if b'\n' in data:
            if t[0] == 'TokComment':
                kinds.add('block-comment')
            elif t[0] == 'TokString':
                kinds.add('long-string' if 'multiline' in t[3] or
                          t[3].startswith(("b'[", 'b"[')) else 'quoted-string')
    return sorted(kinds)


# --- hash seed ---------------------------------------------------------------

def digests_for(src_seed, count):
    out = []
    for i in range(count):
        rng = core.derive_rng(src_seed, 'hs-src', i)
        src = gen_source(rng)
        out.append(core.sha(lex([src], 'lexer'))[:24])
    # keyword-rich fixed probes: every keyword next to every suffix/prefix
    probes = []
    for kw in KEYWORDS:
        probes.append('%s %sx x%s %s_ %s1 %s%s' % (kw, kw, kw, kw, kw, kw,
                                                   KEYWORDS[0]))
    src = ('\n'.join(probes) + '\nelseif elseifx else if endif donot '
           'notnil ornot inn form\n').encode()
    out.append(core.sha(lex([src], 'lexer'))[:24])
    return out


def aux(args):
    """Subprocess entry: prints the digests for (src_seed, count)."""
    src_seed, count = int(args[0]), int(args[1])
    print(json.dumps({'hashseed': os.environ.get('PYTHONHASHSEED'),
                      'digests': digests_for(src_seed, count)}))
    return 0


def execute_hashseed(sc):
    res = core.new_result()
    ev = res['events']
    mine = digests_for(sc['src_seed'], sc['count'])
    core.bump(res['ops'], 'lex-batch')
    for hs in sc['hashseeds']:
        env = dict(os.environ)
        env['PYTHONHASHSEED'] = str(hs)
        p = subprocess.run(
            [sys.executable, os.path.join(core.VERIF_DIR, 'picosim',
                                          'main.py'), 'C07', '--aux',
             str(sc['src_seed']), str(sc['count'])],
            env=env, stdout=subprocess.PIPE, stderr=subprocess.PIPE,
            timeout=300)
        if p.returncode != 0:
            raise core.HarnessError('hash-seed subprocess failed: %s' %
                                    p.stderr.decode()[-800:])
        theirs = json.loads(p.stdout.decode().strip().splitlines()[-1])
        core.bump(res['faults'], 'HASHSEED')
        if theirs['digests'] != mine:
            bad = [i for i in range(len(mine))
                   if theirs['digests'][i] != mine[i]]
            which = 'keyword-probe' if bad[0] == len(mine) - 1 else \
                'generated-source-%d' % bad[0]
            core.violation(
                res, 'C07', 'C07:hashseed-dependent',
                'C07|hashseed-dependent',
                'token lists differ between PYTHONHASHSEED=%s and %s for %d '
                'of %d sources (first: %s, src_seed %d)' % (
                    os.environ.get('PYTHONHASHSEED'), hs, len(bad),
                    len(mine), which, sc['src_seed']))
            break
    res['states'].append('hashseed|%d-seeds|%s' % (
        len(sc['hashseeds']), 'violation' if res['violations'] else 'same'))
    res['nontrivial'] = True
    core.bump(res['probes'], 'fresh-interpreter-under-other-hashseed',
              len(sc['hashseeds']))
    ev.append(('hashseed', sc['src_seed'], sc['count'], core.sha(mine)[:16]))
    return res


# ---------------------------------------------------------------------------

def plan(prop, tier):
    if tier == 'quick':
        return {'runs': 4000, 'wall_cap': 900}
    return {'runs': 160000, 'wall_cap': 6 * 3600, 'opt_runs': 8000}


def shrink(sc):
    if sc['mode'] == 'file':
        src = _src(sc)
        for r in sc['routes']:
            if len(sc['routes']) > 1:
                yield dict(sc, routes=[r])
        lines = src.split(b'\n')
        for cand in core.ddmin_list(lines):
            yield dict(sc, src=core.enc_bytes(b'\n'.join(cand)))
        for i, ln in enumerate(lines):
            words = ln.split(b' ')
            for cand in core.ddmin_list(words):
                yield dict(sc, src=core.enc_bytes(b'\n'.join(
                    lines[:i] + [b' '.join(cand)] + lines[i + 1:])))
        return
    if sc['mode'] != 'chunk':
        if sc['count'] > 1:
            yield dict(sc, count=max(1, sc['count'] // 2))
        if len(sc['hashseeds']) > 1:
            for h in sc['hashseeds']:
                yield dict(sc, hashseeds=[h])
        return
    src = _src(sc)
    # pin one failing delivery first
    if sc.get('cuts') is None:
        ends = line_ends(src)
        yield dict(sc, src=core.enc_bytes(src), cuts=ends, form='list',
                   cut_seeds=[])
        if sc.get('interleave') is not None:
            yield dict(sc, src=core.enc_bytes(src), cuts=ends,
                       form='interleaved', cut_seeds=[])
            yield dict(sc, src=core.enc_bytes(src), cuts=[],
                       form='interleaved', cut_seeds=[])
        for cs in sc.get('cut_seeds', []):
            rng = core.derive_rng(cs, 'cuts', 0)
            if ends:
                k = rng.randint(0, len(ends))
                yield dict(sc, src=core.enc_bytes(src),
                           cuts=sorted(rng.sample(ends, k)), form='list',
                           cut_seeds=[])
        return
    cuts = sc['cuts']
    # fewer cuts
    for c in core.ddmin_list(cuts):
        yield dict(sc, cuts=c)
    # shorter source: drop lines (re-deriving cuts as "all line ends")
    lines = src.split(b'\n')
    for cand in core.ddmin_list(lines):
        s2 = b'\n'.join(cand)
        yield dict(sc, src=core.enc_bytes(s2), cuts=line_ends(s2))
    # drop space-separated words of each line
    for i, ln in enumerate(lines):
        words = ln.split(b' ')
        for cand in core.ddmin_list(words):
            s2 = b'\n'.join(lines[:i] + [b' '.join(cand)] + lines[i + 1:])
            yield dict(sc, src=core.enc_bytes(s2), cuts=line_ends(s2))
    if sc.get('api') != 'lexer':
        yield dict(sc, api='lexer')
    if sc.get('form') != 'list':
        yield dict(sc, form='list')


RULE = {
    'C07': 'seeded sources assembled from keywords, keyword-prefixed/suffixed '
           'identifiers, P8SCII names, all numeric literal forms, every symbol, '
           'quoted strings (escapes, backslash-newline, raw newlines, CRLF), '
           'long strings of bracket levels 0-3 with lookalike closers, block '
           'and line comments, labels and PICO-8 shorthands under seeded '
           'layout (spaces, tabs, \\n, \\r\\n, lone \\r), plus the code of the '
           'carts in tests/testdata; each source is lexed as one chunk '
           '(baseline) and then split after every line end (list, generator, '
           'binary file object) and after 20 seeded subsets of its line ends, '
           'through Lexer.process_lines and Lua.from_lines; token lists '
           '(class, data, value, code, line, column) or the error class and '
           'position must be identical. One job in forty re-lexes 40 sources '
           'plus a keyword-adjacency probe in fresh interpreters under four '
           'other PYTHONHASHSEED values and compares digests. distinct = '
           'distinct tuples (api, lexable, multi-line token kinds present, '
           'deliveries, outcome); non-trivial iff the source has an interior '
           'line end that at least one delivery cut at',
}

ASSUMPTIONS = {
    'C07': ['PARTIAL: the single-chunk tokenisation is the baseline; agreement '
            'with the Lua/PICO-8 lexical grammar is not decided',
            'line ends are the positions after a \\n byte'],
}

REQUIRED_PROBES = {
    ('C07', 'quick'): ['multi-line-token:block-comment',
                       'multi-line-token:long-string',
                       'multi-line-token:quoted-string', 'unlexable-source',
                       'fresh-interpreter-under-other-hashseed'],
}


RULE_MORE = {'C07': " Added in the build rounds: multi-line tokens of 1-16 KiB around powers of two, a second lexer stepped between the chunks of the first (interleaving), BOM-like glyph names, \\z, and one job in ten sends valid programs through the real loaders: as the code of a .p8, of a cart #included once, twice, by tab and then whole, after an earlier failed load of the same file, and `p8tool listtokens` on .p8 vs .p8.png. Round 6: the parts of a goto label spread over lines; two projects in the PICO-8 carts folder that each include a lib.lua of their own, loaded one after the other. Round 7: the text appended to one long-lived Lua object with update_from_lines() in batches cut where the text so far consists of complete tokens - a batch may end inside a block, the parser then rejects the program so far and the caller carries on. Round 8: the text delivered as a seekable file object whose first line (the caller's front matter) has been read already; a .lua file of more than 64 KiB reached through #include."}
