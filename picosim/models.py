"""MemModel: one flat bytearray(0x4300) with the PICO-8 memory map and one-line
implementations of the documented accessor semantics.  The oracle for C17/C18.
"""

GFX_A, MAP_A, GFF_A, MUSIC_A, SFX_A, END_A = (
    0x0000, 0x2000, 0x3000, 0x3100, 0x3200, 0x4300)
BOUNDARIES = (GFX_A, MAP_A, GFF_A, MUSIC_A, SFX_A, END_A)
TRANSPARENT = 16


class MemModel:
    def __init__(self, flat):
        assert len(flat) == END_A
        self.m = bytearray(flat)

    # --- pixels -------------------------------------------------------------
    def _pget(self, x, y):
        b = self.m[y * 64 + x // 2]
        return (b >> 4) if x & 1 else (b & 0x0f)

    def _pset(self, x, y, v):
        a = y * 64 + x // 2
        b = self.m[a]
        self.m[a] = ((b & 0x0f) | (v << 4)) if x & 1 else ((b & 0xf0) | v)

    def gfx_get_sprite(self, id, tile_width=1, tile_height=1):
        x0, y0 = (id % 16) * 8, (id // 16) * 8
        return [[self._pget(x, y) if (x < 128 and y < 128) else 0
                 for x in range(x0, x0 + 8 * tile_width)]
                for y in range(y0, y0 + 8 * tile_height)]

    def gfx_set_sprite(self, id, sprite, tile_x_offset=0, tile_y_offset=0):
        x0 = (id % 16) * 8 + tile_x_offset
        y0 = (id // 16) * 8 + tile_y_offset
        for dy, row in enumerate(sprite):
            for dx, v in enumerate(row):
                if v != TRANSPARENT and x0 + dx < 128 and y0 + dy < 128:
                    self._pset(x0 + dx, y0 + dy, v)

    # --- map ----------------------------------------------------------------
    @staticmethod
    def _cell_addr(x, y):
        return MAP_A + y * 128 + x if y < 32 else 0x1000 + (y - 32) * 128 + x

    def map_get_cell(self, x, y):
        return self.m[self._cell_addr(x, y)]

    def map_set_cell(self, x, y, val):
        self.m[self._cell_addr(x, y)] = val

    def map_get_rect_tiles(self, x, y, width=1, height=1):
        return [[self.map_get_cell(cx, cy) if (cx < 128 and cy < 64) else 0
                 for cx in range(x, x + width)]
                for cy in range(y, y + height)]

    def map_set_rect_tiles(self, rect, x, y):
        for dy, row in enumerate(rect):
            for dx, v in enumerate(row):
                if x + dx < 128 and y + dy < 64:
                    self.map_set_cell(x + dx, y + dy, v)

    def map_get_rect_pixels(self, x, y, width=1, height=1):
        out = []
        for trow in self.map_get_rect_tiles(x, y, width, height):
            rows = [[] for _ in range(8)]
            for id in trow:
                spr = ([[0] * 8] * 8) if id == 0 else self.gfx_get_sprite(id)
                for i in range(8):
                    rows[i].extend(spr[i])
            out.extend(rows)
        return out

    # --- flags --------------------------------------------------------------
    def gff_get_flags(self, id, flags):
        return self.m[GFF_A + id] & flags

    def gff_set_flags(self, id, flags):
        self.m[GFF_A + id] |= flags & 0xff

    def gff_clear_flags(self, id, flags):
        self.m[GFF_A + id] &= ~flags & 0xff

    def gff_reset_flags(self, id, flags):
        self.m[GFF_A + id] = flags & 0xff

    # --- sfx ----------------------------------------------------------------
    def sfx_get_note(self, id, note):
        a = SFX_A + id * 68 + note * 2
        w = self.m[a] | (self.m[a + 1] << 8)
        pitch = w & 0x3f
        waveform = ((w >> 6) & 7) | ((w >> 15) << 3)
        volume = (w >> 9) & 7
        effect = (w >> 12) & 7
        return (pitch, waveform, volume, effect)

    def sfx_set_note(self, id, note, pitch=None, waveform=None, volume=None,
                     effect=None):
        p, wv, v, e = self.sfx_get_note(id, note)
        p = p if pitch is None else pitch
        wv = wv if waveform is None else waveform
        v = v if volume is None else volume
        e = e if effect is None else effect
        w = p | ((wv & 7) << 6) | (v << 9) | (e << 12) | ((wv >> 3) << 15)
        a = SFX_A + id * 68 + note * 2
        self.m[a] = w & 0xff
        self.m[a + 1] = w >> 8

    def sfx_get_properties(self, id):
        a = SFX_A + id * 68 + 64
        return tuple(self.m[a:a + 4])

    def sfx_set_properties(self, id, editor_mode=None, note_duration=None,
                           loop_start=None, loop_end=None):
        a = SFX_A + id * 68 + 64
        for i, v in enumerate((editor_mode, note_duration, loop_start,
                               loop_end)):
            if v is not None:
                self.m[a + i] = v

    # --- music --------------------------------------------------------------
    def music_get_channel(self, id, channel):
        v = self.m[MUSIC_A + id * 4 + channel] & 0x7f
        return None if v > 63 else v

    def music_set_channel(self, id, channel, pattern):
        a = MUSIC_A + id * 4 + channel
        if pattern is None:
            pattern = 0x41 + channel
        self.m[a] = (self.m[a] & 0x80) | pattern

    def music_get_properties(self, id):
        a = MUSIC_A + id * 4
        return tuple(bool(self.m[a + i] & 0x80) for i in range(3))

    def music_set_properties(self, id, begin=None, end=None, stop=None):
        a = MUSIC_A + id * 4
        for i, v in enumerate((begin, end, stop)):
            if v is not None:
                self.m[a + i] = (self.m[a + i] & 0x7f) | (0x80 if v else 0)

    # --- raw ----------------------------------------------------------------
    def write_cart_data(self, data, start_addr=0):
        """Returns False (and changes nothing) if the write would pass the
        end of cart data memory."""
        if start_addr + len(data) > END_A:
            return False
        self.m[start_addr:start_addr + len(data)] = data
        return True
