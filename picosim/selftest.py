"""Self-tests of the machinery itself.

selftest-codec        reference codecs vs. the PICO-8-written carts in
                      tests/testdata, and vs. themselves
selftest-determinism  many seeds twice, at two worker counts, and in fresh
                      interpreters under other hash seeds; digests must agree
selftest-mutants      apply each patch in /verif/mutants and /verif/seeded to a
                      scratch copy of /repo; the matching quick check must
                      report a violation whose replay reproduces
"""

import glob
import json
import os
import shutil
import subprocess
import sys
import tempfile
import time

from picosim import core, refcodec, registry


def log(msg):
    # (the same bytes under every locale: messages quote cart contents)
    print(str(msg).encode('ascii', 'backslashreplace').decode('ascii'),
          flush=True)


def run(target, rest):
    if target == 'selftest-codec':
        return selftest_codec()
    if target == 'selftest-determinism':
        return selftest_determinism(rest)
    if target == 'selftest-mutants':
        return selftest_mutants(rest)
    if target == 'selftest-refactors':
        return selftest_refactors(rest)
    if target == 'selftest-setup':
        return selftest_codec()
    log('unknown selftest %s' % target)
    return core.EXIT_HARNESS


# ---------------------------------------------------------------------------

def selftest_codec():
    td = os.path.join(core.REPO, 'tests', 'testdata')
    n = 0
    for base in ('test_cart', 'test_gol', 'test_cart_memdump', 'empty'):
        p8 = os.path.join(td, base + '.p8')
        png = os.path.join(td, base + '.p8.png')
        if not (os.path.exists(p8) and os.path.exists(png)):
            log('selftest-codec: %s pair missing, skipped' % base)
            continue
        a = refcodec.decode_p8(open(p8, 'rb').read())
        b = refcodec.decode_p8png(open(png, 'rb').read())
        for k in refcodec.REGIONS:
            if a[k] != b[k]:
                raise core.HarnessError(
                    'reference codecs disagree on %s region %s' % (base, k))
        if a['code'].rstrip(b'\n') != b['code'].rstrip(b'\n'):
            raise core.HarnessError('reference codecs disagree on %s code'
                                    % base)
        if a['version'] != b['version']:
            raise core.HarnessError('reference codecs disagree on version')
        for enc, dec in ((refcodec.encode_p8, refcodec.decode_p8),
                         (refcodec.encode_p8png, refcodec.decode_p8png)):
            c = dec(enc(a))
            for k in refcodec.REGIONS:
                if c[k] != a[k]:
                    raise core.HarnessError('reference codec round trip '
                                            'changes %s' % k)
            if c['code'].rstrip(b'\n') != a['code'].rstrip(b'\n'):
                raise core.HarnessError('reference codec round trip changes '
                                        'code')
        n += 1
    # seeded carts through both reference codecs
    for seed in range(1, 9):
        spec = {'version': 33, 'code': {'$txt': 'x=%d\n' % seed},
                'regions': {k: seed * 10 + i
                            for i, k in enumerate(refcodec.REGIONS)},
                'label': {'p8_seed': seed, 'png_seed': seed}}
        cart = refcodec.cart_from_spec(spec)
        c1 = refcodec.decode_p8(refcodec.encode_p8(cart))
        c2 = refcodec.decode_p8png(refcodec.encode_p8png(cart))
        for k in refcodec.REGIONS:
            if not (c1[k] == c2[k] == cart[k]):
                raise core.HarnessError('seeded cart round trip: ' + k)
        if c1['label']['p8'] != cart['label']['p8']:
            raise core.HarnessError('seeded cart label round trip')
        if c2['label']['png_upper'] != refcodec.upper_bits(
                refcodec.label_pixels(seed)):
            raise core.HarnessError('seeded cart png label round trip')
    log('selftest-codec: ok (%d PICO-8-written pairs, 8 seeded carts)' % n)
    return 0


# ---------------------------------------------------------------------------

def _digests(prop, tier, runs, idxs, hashseed, workers=None):
    env = dict(os.environ)
    env['PYTHONHASHSEED'] = str(hashseed)
    env['PICOSIM_RUNS'] = str(runs)
    env['PICOSIM_NO_DET'] = '1'
    p = subprocess.run(
        [sys.executable, os.path.join(core.VERIF_DIR, 'picosim', 'main.py'),
         prop, '--tier', tier, '--digest-jobs', ','.join(map(str, idxs))],
        env=env, stdout=subprocess.PIPE, stderr=subprocess.PIPE, timeout=3600)
    if p.returncode != 0:
        raise core.HarnessError('digest run failed: ' + p.stderr.decode()[-1500:])
    return json.loads(p.stdout.decode().strip().splitlines()[-1])


def selftest_determinism(rest):
    """For each claimed property: N jobs, digests computed (a) twice in
    separate fresh interpreters with PYTHONHASHSEED=0, (b) with other hash
    seeds, (c) split over several interpreters running concurrently (the
    analogue of another worker count).  All must agree."""
    import concurrent.futures
    n = 200
    props = sorted(registry.CHECKS)
    for a in rest:
        if a.startswith('--n='):
            n = int(a[4:])
        elif a.startswith('--props='):
            props = a[8:].split(',')
    t0 = time.time()
    bad = 0
    report = {}
    for prop in props:
        engine = registry.engine_for(prop)
        plan = engine.plan(prop, 'quick')
        runs = plan['runs']
        seed = core.get_seed()
        if hasattr(engine, 'jobs'):
            njobs = len(engine.jobs(prop, 'quick', seed, runs))
        else:
            from picosim import main as _m  # noqa
            njobs = runs + (len(engine.enumerated(prop, 'quick', seed))
                            if hasattr(engine, 'enumerated') else 0)
        k = min(n, njobs)
        idxs = sorted({int(i * (njobs - 1) / max(1, k - 1)) for i in range(k)})
        parts = [idxs[i::8] for i in range(8)]
        parts = [p for p in parts if p]
        configs = [('0', parts), ('0', [idxs[i::3] for i in range(3)]),
                   ('1', parts), ('987654', parts)]
        results = []
        with concurrent.futures.ThreadPoolExecutor(max_workers=16) as ex:
            for hs, pp in configs:
                futs = [ex.submit(_digests, prop, 'quick', runs, p, hs)
                        for p in pp if p]
                d = {}
                for f in futs:
                    d.update(f.result())
                results.append(d)
        base = results[0]
        mism = set()
        for r in results[1:]:
            for i in base:
                if r.get(i) != base[i]:
                    mism.add(i)
        report[prop] = {'jobs': len(idxs), 'configs': len(configs),
                        'mismatching': sorted(mism)}
        log('selftest-determinism: %s: %d jobs x %d configurations: %s' % (
            prop, len(idxs), len(configs),
            'ok' if not mism else 'MISMATCH at jobs %s' % sorted(mism)[:10]))
        bad += len(mism)
    os.makedirs(core.EVIDENCE_DIR, exist_ok=True)
    with open(os.path.join(core.EVIDENCE_DIR, 'determinism.json'), 'w',
              encoding='utf-8') as fh:
        json.dump({'report': report, 'wall_s': round(time.time() - t0, 1),
                   'configurations': [
                       'PYTHONHASHSEED=0, 8 concurrent interpreters',
                       'PYTHONHASHSEED=0, 3 concurrent interpreters',
                       'PYTHONHASHSEED=1, 8 concurrent interpreters',
                       'PYTHONHASHSEED=987654, 8 concurrent interpreters']},
                  fh, indent=1, sort_keys=True)
    return core.EXIT_HARNESS if bad else 0


# ---------------------------------------------------------------------------

def _patch_list():
    out = []
    for p in sorted(glob.glob(os.path.join(core.VERIF_DIR, 'mutants',
                                           '*.patch'))):
        name = os.path.basename(p)[:-6]
        prop = name.split('_')[0]
        out.append((name, prop, p))
    for d in sorted(glob.glob(os.path.join(core.VERIF_DIR, 'seeded', '*'))):
        meta = os.path.join(d, 'meta.json')
        patch = os.path.join(d, 'patch.diff')
        if os.path.exists(meta) and os.path.exists(patch):
            m = json.load(open(meta, encoding='utf-8'))
            if m.get('not_caught'):
                continue      # documented miss (see meta.json / DESIGN.md)
            out.append(('seeded/' + os.path.basename(d),
                        m.get('property_checked_under', m['property']),
                        patch))
    return out


def selftest_mutants(rest):
    """Sensitivity: every patch must be caught by its property's quick
    check, run against a scratch copy of /repo (never /repo itself)."""
    only = None
    tier = 'quick'
    resume = '--resume' in rest        # skip patches already recorded caught
    retry = '--retry-missed' in rest   # only patches recorded as not caught
    no_slices = '--no-slices' in rest  # without the configuration slices
    for a in rest:
        if a.startswith('--only='):
            only = a[7:].split(',')
        if a.startswith('--tier='):
            tier = a[7:]
    recorded = {}
    if resume or retry:
        try:
            with open(os.path.join(core.EVIDENCE_DIR, 'sensitivity.json'),
                      encoding='utf-8') as fh:
                recorded = {r['mutant']: r['status']
                            for r in json.load(fh).get('results', [])}
        except (OSError, ValueError):
            recorded = {}
    results = []
    t0 = time.time()
    for name, prop, patch in _patch_list():
        if only and not any(o in name for o in only):
            continue
        if resume and recorded.get(name) == 'caught':
            continue
        if retry and recorded.get(name, 'caught') == 'caught':
            continue
        if prop not in registry.CHECKS:
            log('selftest-mutants: %s: property %s not claimed, skipped' % (
                name, prop))
            continue
        scratch = tempfile.mkdtemp(prefix='picosim-mutant-')
        try:
            dst = os.path.join(scratch, 'repo')
            subprocess.run(['git', '-C', core.REPO, 'worktree', 'prune'],
                           stdout=subprocess.DEVNULL,
                           stderr=subprocess.DEVNULL)
            shutil.copytree(core.REPO, dst, symlinks=True,
                            ignore=shutil.ignore_patterns(
                                '.git', '__pycache__', '*.pyc', '.pytest_cache',
                                '*.egg-info'))
            ap = subprocess.run(['patch', '-p1', '-s', '-d', dst, '-i', patch],
                                stdout=subprocess.PIPE,
                                stderr=subprocess.STDOUT)
            if ap.returncode != 0:
                log('selftest-mutants: %s: patch does not apply:\n%s' % (
                    name, ap.stdout.decode()[-600:]))
                results.append({'mutant': name, 'property': prop,
                                'status': 'patch-failed'})
                continue
            env = dict(os.environ)
            env['PICOSIM_REPO'] = dst
            env['PICOSIM_NO_DET'] = '1'
            env['PICOSIM_MAX_REPORTS'] = '2'
            if no_slices:
                env['PICOSIM_NO_OPT'] = '1'
            # (the replay is confirmed either way; a smaller minimiser budget
            # only leaves it less minimal)
            env.setdefault('PICOSIM_SHRINK', '60')
            env['PICOSIM_EVIDENCE_DIR'] = os.path.join(scratch, 'evidence')
            env['PICOSIM_REPLAY_DIR'] = os.path.join(scratch, 'replays')
            t1 = time.time()
            p = subprocess.run(
                [sys.executable,
                 os.path.join(core.VERIF_DIR, 'picosim', 'main.py'), prop,
                 '--tier', tier],
                env=env, stdout=subprocess.PIPE, stderr=subprocess.STDOUT,
                timeout=3600)
            out = p.stdout.decode('utf-8', 'replace')
            caught = p.returncode == 1 and 'VIOLATION property=%s' % prop \
                in out
            cls = [ln.strip() for ln in out.splitlines()
                   if ln.strip().startswith('class:')]
            results.append({'mutant': name, 'property': prop,
                            'status': 'caught' if caught else
                            ('harness-error' if p.returncode == 2
                             else 'MISSED'),
                            'classes': cls[:3],
                            'configuration_slices': not no_slices,
                            'wall_s': round(time.time() - t1, 1)})
            log('selftest-mutants: %-50s %s %s %s' % (
                name, prop, results[-1]['status'], cls[:1]))
            if p.returncode == 2:
                log(out[-1500:])
            _write_sensitivity(results, only, tier, t0)
        finally:
            shutil.rmtree(scratch, ignore_errors=True)
    _write_sensitivity(results, only, tier, t0)
    missed = [r for r in results if r['status'] != 'caught']
    log('selftest-mutants: %d/%d caught' % (len(results) - len(missed),
                                            len(results)))
    return 0 if not missed else 1


def _write_sensitivity(results, only, tier, t0):
    """Entries evaluated in this run replace their predecessors in
    evidence/sensitivity.json; the others are kept.  Safe for several
    selftest-mutants processes working on disjoint subsets at once."""
    import fcntl
    os.makedirs(core.EVIDENCE_DIR, exist_ok=True)
    spath = os.path.join(core.EVIDENCE_DIR, 'sensitivity.json')
    with open(spath + '.lock', 'w') as lock:
        fcntl.flock(lock, fcntl.LOCK_EX)
        try:
            with open(spath, encoding='utf-8') as fh:
                old = json.load(fh)
        except (OSError, ValueError):
            old = {}
        done = {r['mutant'] for r in results}
        known = {n for n, _p, _f in _patch_list()}
        kept = [r for r in old.get('results', [])
                if r.get('mutant') not in done and r.get('mutant') in known]
        merged = sorted(kept + results, key=lambda r: r['mutant'])
        doc = {'results': merged, 'tier': tier,
               'wall_s': round(sum(r.get('wall_s', 0) for r in merged), 1),
               'caught': sum(1 for r in merged if r['status'] == 'caught'),
               'total': len(merged)}
        with open(spath + '.tmp', 'w', encoding='utf-8') as fh:
            json.dump(doc, fh, indent=1, sort_keys=True)
        os.replace(spath + '.tmp', spath)


# ---------------------------------------------------------------------------

def selftest_refactors(rest):
    """Specificity: every patch in /verif/refactors/<prop>-rN/ is a
    behaviour-preserving re-implementation written by a sub-agent that knew
    only the property text; the property's quick check, run against a scratch
    copy with the patch applied, must exit 0 (no alarm)."""
    only = None
    for a in rest:
        if a.startswith('--only='):
            only = a[7:].split(',')
    results = []
    t0 = time.time()
    for d in sorted(glob.glob(os.path.join(core.VERIF_DIR, 'refactors', '*'))):
        name = os.path.basename(d)
        prop = name.split('-')[0]
        patch = os.path.join(d, 'patch.diff')
        if not os.path.exists(patch) or prop not in registry.CHECKS:
            continue
        if only and not any(o in name for o in only):
            continue
        scratch = tempfile.mkdtemp(prefix='picosim-refactor-')
        try:
            dst = os.path.join(scratch, 'repo')
            shutil.copytree(core.REPO, dst, symlinks=True,
                            ignore=shutil.ignore_patterns(
                                '.git', '__pycache__', '*.pyc',
                                '.pytest_cache', '*.egg-info'))
            ap = subprocess.run(['patch', '-p1', '-s', '-d', dst, '-i', patch],
                                stdout=subprocess.PIPE,
                                stderr=subprocess.STDOUT)
            if ap.returncode != 0:
                results.append({'refactor': name, 'property': prop,
                                'status': 'patch-failed'})
                log('selftest-refactors: %-12s patch does not apply' % name)
                continue
            env = dict(os.environ)
            env.update({'PICOSIM_REPO': dst, 'PICOSIM_NO_DET': '1',
                        'PICOSIM_EVIDENCE_DIR': os.path.join(scratch, 'ev'),
                        'PICOSIM_REPLAY_DIR': os.path.join(scratch, 'rp')})
            t1 = time.time()
            p = subprocess.run(
                [sys.executable,
                 os.path.join(core.VERIF_DIR, 'picosim', 'main.py'), prop,
                 '--tier', 'quick'], env=env, stdout=subprocess.PIPE,
                stderr=subprocess.STDOUT, timeout=3600)
            out = p.stdout.decode('utf-8', 'replace')
            st = {0: 'quiet', 1: 'FALSE-ALARM', 2: 'harness-error'}.get(
                p.returncode, 'exit-%d' % p.returncode)
            results.append({'refactor': name, 'property': prop, 'status': st,
                            'wall_s': round(time.time() - t1, 1)})
            log('selftest-refactors: %-12s %s' % (name, st))
            if p.returncode:
                log(out[-1500:])
        finally:
            shutil.rmtree(scratch, ignore_errors=True)
    os.makedirs(core.EVIDENCE_DIR, exist_ok=True)
    with open(os.path.join(core.EVIDENCE_DIR, 'specificity.json'), 'w',
              encoding='utf-8') as fh:
        json.dump({'results': results,
                   'wall_s': round(time.time() - t0, 1)}, fh, indent=1,
                  sort_keys=True)
    bad = [r for r in results if r['status'] != 'quiet']
    log('selftest-refactors: %d/%d quiet' % (len(results) - len(bad),
                                             len(results)))
    return 0 if not bad else 1
