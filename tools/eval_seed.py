#!/usr/bin/env python3
"""Evaluate a seeded change (patch.diff + demo.py) written by a sub-agent.

  tools/eval_seed.py <property> <dir with patch.diff, demo.py> [--tier quick]
                     [--no-tests] [--runs N]

Steps, all in a scratch copy of /repo outside /repo and /verif (removed at the
end): demo passes on the clean copy; patch applies; demo fails with the patch;
the pinned test suite passes with the patch; then the property's check is run
against the patched copy (PICOSIM_REPO) and its verdict printed.
"""
import json
import os
import shutil
import subprocess
import sys
import tempfile
import time

VERIF = os.path.dirname(os.path.dirname(os.path.abspath(__file__)))
PY = '/venv/bin/python'


def sh(cmd, **kw):
    return subprocess.run(cmd, stdout=subprocess.PIPE,
                          stderr=subprocess.STDOUT, **kw)


def main():
    prop, d = sys.argv[1], sys.argv[2]
    tier = 'quick'
    tests = '--no-tests' not in sys.argv
    runs = None
    for i, a in enumerate(sys.argv):
        if a == '--tier':
            tier = sys.argv[i + 1]
        if a == '--runs':
            runs = sys.argv[i + 1]
    scratch = tempfile.mkdtemp(prefix='picosim-seed-')
    out = {'property': prop, 'dir': d}
    try:
        dst = os.path.join(scratch, 'repo')
        shutil.copytree('/repo', dst, symlinks=True,
                        ignore=shutil.ignore_patterns(
                            '.git', '__pycache__', '*.pyc', '.pytest_cache',
                            '*.egg-info'))
        demo = os.path.join(d, 'demo.py')
        patch = os.path.join(d, 'patch.diff')
        env = dict(os.environ, PYTHONDONTWRITEBYTECODE='1')
        have_demo = os.path.exists(demo)
        if have_demo:
            p = sh([PY, demo, dst], env=env, timeout=600)
            out['demo_clean_exit'] = p.returncode
        ap = sh(['patch', '-p1', '-s', '-d', dst, '-i', patch])
        out['patch_applies'] = ap.returncode == 0
        if ap.returncode != 0:
            out['patch_output'] = ap.stdout.decode()[-500:]
            print(json.dumps(out, indent=1))
            return 1
        if have_demo:
            p = sh([PY, demo, dst], env=env, timeout=600)
            out['demo_patched_exit'] = p.returncode
            out['demo_patched_tail'] = p.stdout.decode(
                'utf-8', 'replace')[-400:]
        if tests:
            t = sh([PY, '-m', 'pytest', '-q', '-p', 'no:cacheprovider', '-x',
                    '-n', '8'], cwd=dst,
                   env=dict(env, PYTHONPATH=dst), timeout=1800)
            out['tests_tail'] = t.stdout.decode('utf-8', 'replace').strip(
            ).splitlines()[-1]
            out['tests_pass'] = t.returncode == 0
        env2 = dict(env, PICOSIM_REPO=dst, PICOSIM_NO_DET='1',
                    PICOSIM_MAX_REPORTS='3',
                    PICOSIM_EVIDENCE_DIR=os.path.join(scratch, 'ev'),
                    PICOSIM_REPLAY_DIR=os.path.join(scratch, 'rp'))
        if runs:
            env2['PICOSIM_RUNS'] = runs
        t0 = time.time()
        c = sh([PY, os.path.join(VERIF, 'picosim', 'main.py'), prop,
                '--tier', tier], env=env2, timeout=7200)
        txt = c.stdout.decode('utf-8', 'replace')
        out['check_exit'] = c.returncode
        out['check_wall_s'] = round(time.time() - t0, 1)
        out['check_classes'] = [ln.strip() for ln in txt.splitlines()
                                if ln.strip().startswith(('class:', 'what:'))
                                ][:6]
        out['caught'] = c.returncode == 1 and \
            ('VIOLATION property=%s' % prop) in txt
        if c.returncode == 2:
            out['check_tail'] = txt[-1500:]
    finally:
        shutil.rmtree(scratch, ignore_errors=True)
    print(json.dumps(out, indent=1))
    return 0


if __name__ == '__main__':
    sys.exit(main())
