#!/usr/bin/env python3
"""Generates /verif/MANIFEST.json (kept in a script so the JSON stays valid).
Usage: python3 tools/gen_manifest.py [built-property-ids...]   (default: all)
"""
import json
import os
import sys

HERE = os.path.dirname(os.path.dirname(os.path.abspath(__file__)))

TECH = 'deterministic simulation with fault injection (picosim): '

CHECKS = {
    'C07': dict(
        engine='lexstream', category='exploration', design_ref='DESIGN.md §3 C07',
        technique=TECH + 'seeded stream chunkings (short reads at line ends) x '
        'PYTHONHASHSEED of fresh interpreters, token lists compared with the '
        'single-chunk baseline',
        text='PARTIAL. Decides only the last sentence of C07 (tokenisation does '
        'not depend on whether the text arrives as one chunk or split at line '
        'ends) plus independence from the one hidden process-level '
        'nondeterminism source (keyword regex order from set iteration under '
        'PYTHONHASHSEED). Seeded exploration of chunkings and delivery forms '
        '(list, generator, binary file object) over sources rich in multi-line '
        'tokens, sizes up to 16 KiB, a second lexer interleaved between the '
        'chunks, and - for valid programs - delivery through the real .p8 / '
        '#include / .p8.png loaders and `p8tool listtokens`. NOT decided: '
        'that the token list is the one the Lua/PICO-8 '
        'grammar dictates (longest match, kinds, values) - a pure function of '
        'the text that needs a reference lexer, which is not this technique; a '
        'reordering of the symbol regexes is not expected to be caught here.',
        note='Trusts the single-chunk tokenisation as baseline (no reference '
        'lexer). Line ends are positions after \\n. Real lexer and Lua.from_lines; '
        'no stubs.'),
    'C11': dict(
        engine='cartwrite', category='fault_enumeration', design_ref='DESIGN.md §3 C11',
        technique=TECH + 'write-fault enumeration over every encoder write '
        'index k, seeded crash points via sys.settrace, internal failure '
        'sources; destination snapshot before/after',
        text='For each (route x format x writer x prior destination state) '
        'scenario the clean run counts the encoder\'s write calls and the check '
        'injects a failing (W-ERR) or torn (W-TORN) write at every index k '
        '(enumerated, not sampled, for the representative scenarios; strided '
        'for the rest in quick), crashes (SimCrash, MemoryError, '
        'KeyboardInterrupt) at seeded line sites of pico8/ stratified by '
        'function, and every internal failure source reachable through public '
        'arguments (raising/garbage Lua writers, unencodable sections, bad '
        'labels, bad CLI arguments, lowered recursion limit). Oracle: if the '
        'operation failed, (exists, is_file, bytes, link target) of the '
        'destination are identical to the snapshot taken before; if success is '
        'reported although an injected fault fired, the destination must be '
        'unchanged or decode to the intended cart. Routes: file.to_file (also '
        'over its own input, and after an earlier successful write), and '
        'tool.main writep8/luamin/luafmt [--overwrite]/build, single- and '
        'multi-file, with relative and absolute arguments, odd names, '
        'symlinked destinations, TMPDIR inside the store.',
        note='Faults are injected only until the formatter\'s to_file returns '
        '(the property\'s premise is that producing the cart fails); a failure '
        'the code raises itself after that point counts like any other. '
        'Crash points are '
        'Python line boundaries inside pico8/; failures inside C extensions are '
        'represented by the write fault on the stream they feed. No power-loss '
        'model. Real picotool, pypng and file I/O on tmpfs; the only stub is the '
        'FaultyStream proxy.'),
    'C12': dict(
        engine='pathjail', category='exploration', design_ref='DESIGN.md §3 C12',
        technique=TECH + 'seeded file-system layouts with canary files, '
        'environments (HOME, PICO8_LUA_PATH, cwd) and adversarial path strings; '
        'I/O history recorded by a Python audit hook and checked against a '
        'path-jail model',
        text='Seeded exploration: per run a directory tree with canaries '
        'outside every permitted root (parent, cousins, prefix-sharing '
        'siblings, HOME, carts folders and their prefix-siblings), one load or '
        'build whose #include/require string is composed from the property\'s '
        'alphabet and biased toward the relative path to each canary. Oracle: '
        'every open() under $ROOT recorded by the audit hook lies in a '
        'permitted root (component-wise containment) and no canary marker '
        'reaches the output.',
        note='Only opens count (isfile/exists probes are a statistic). '
        'Symlinks, Windows semantics, case-insensitive file systems not '
        'modelled. Real picotool and file system; model: permitted-roots '
        'computation.'),
    'C13': dict(
        engine='buildstore', category='exploration', design_ref='DESIGN.md §3 C13',
        technique=TECH + 'build as a state transition on a store of cart files, '
        'checked against a reference cart model after every step, with failing '
        'builds (bad arguments, missing files, write faults, crashes) '
        'interleaved',
        text='Histories of 1-4 `p8tool build` invocations through tool.main on '
        'a store seeded by independent reference encoders; after every step OUT '
        'is decoded by the reference decoder and by file.from_file and both '
        'must equal the StoreModel prediction per section and label; failing '
        'steps must fail and leave OUT\'s bytes untouched. Thorough tier '
        'enumerates all 4^6 section assignments x 3 prior OUT states x 2 OUT '
        'formats once each.',
        note='Contents are random region bytes and marker code (format-'
        'representable); code compared modulo trailing newlines. Reference '
        'codecs validated against the PICO-8-written carts in tests/testdata.'),
    'C14': dict(
        engine='pkggraph', category='exploration', design_ref='DESIGN.md §3 C14',
        technique=TECH + 'build --lua over seeded package graphs on the '
        'simulated store (cycles, diamonds, nested dirs, load paths, ENOENT), '
        'with a step bound as termination detector and a package-graph model',
        text='PARTIAL. Decides traversal of the package graph with the visited '
        'table, once-only embedding under each distinct require string, '
        'placement (package table, packages, loader, main program last), '
        'stripping of top-level game-loop functions by position, failure on a '
        'missing file or malformed require(), and termination on cycles. '
        'Package bodies are uniquely numbered marker statements. NOT decided: '
        'token-for-token preservation of arbitrary dialect programs as package '
        'bodies and `require "x"` string-call syntax (content questions that '
        'need a reference tokenizer).',
        note='Markers are plain assignment statements; real parser, writers '
        'and build; model: expected marker sequence.'),
    'C17': dict(
        engine='cartmem', category='exploration', design_ref='DESIGN.md §3 C17/C18',
        technique=TECH + 'seeded operation histories on the shared cart memory '
        'of a real Game, compared with a flat-memory reference model after '
        'every operation (no scheduler: the library is synchronous)',
        text='Seeded histories (1-30 calls, swarm-style subsets of the 19 '
        'accessor kinds, edge-biased in-contract arguments) from seeded region '
        'contents; after every call the getter result, every byte of the five '
        'regions, and the region sizes are compared with MemModel; an '
        'in-contract call must not raise. Map rows 32-63 alias gfx bytes '
        '4096-8191 in the model as in the memory map.',
        note='Out of contract and not generated: negative offsets, pixel '
        'values > 16, ids out of range, maps without a Gfx for rows >= 32, '
        'get_rect_tiles/get_rect_pixels past the bottom edge (docstring and '
        'assertion disagree). Samples the history space; no interleavings '
        'exist to explore.'),
    'C18': dict(
        engine='cartmem', category='exploration', design_ref='DESIGN.md §3 C17/C18',
        technique=TECH + 'enumerated boundary-adjacent raw writes plus seeded '
        'write histories against a flat-memory reference model; rejected '
        'writes treated as the fault case (must change nothing)',
        text='All (start,end) pairs with both ends within +-2 bytes of the six '
        'region boundaries are enumerated (one run each, seeded data and prior '
        'contents) in both tiers; plus seeded histories of raw writes '
        '(boundary pairs, empty, whole-memory, past 0x4300, random), optionally '
        'interleaved with accessors. After every write: all region bytes equal '
        'the flat model, sizes unchanged, seven getter probes agree; a write '
        'passing 0x4300 must raise and change nothing.',
        note='Data and prior contents are seeded pseudo-random bytes; bytes and '
        'bytearray arguments, positional and keyword calls.'),
    'C20': dict(
        engine='pathjail', category='exploration', design_ref='DESIGN.md §3 C20',
        technique=TECH + '#include over seeded file trees on the simulated '
        'store: open history from the audit hook plus a splice model; ENOENT '
        'fault on targets',
        text='PARTIAL. Decides which files are opened (exactly the targets of '
        'the cart\'s own include lines, never nested ones), where their lines '
        'are spliced (byte equality with a reference splice after dropping '
        'empty lines), tab selection 0..tabs+1, all three target kinds in the '
        'cart directory and sub-directories, and failure on a missing target. '
        'NOT decided: whether an included file lacking a final newline must be '
        'given one, include-line recognition inside strings/comments, '
        'non-ASCII content.',
        note='Targets are written by the reference encoders; code is marker '
        'lines.'),
}

NA = {
    'C01': 'pure function of (program, options): no schedule, clock, fault, history or I/O environment in the statement; deciding it is input-space sampling against a reference lexer, which is not deterministic simulation',
    'C02': 'pure function of (identifier population, keep set); MinifyNameFactory is per-writer, no state survives between carts, so there is no history or fault to simulate',
    'C03': 'composition of two pure codecs through a passive byte sink; nothing in the statement depends on faults, prior storage state or chunking (failure atomicity of the write is C11)',
    'C04': 'pure codec round trip; its two storage-dependent clauses (label reuse from the existing destination, refusal never leaving a truncated file) are exercised under C13 and C11 but the dominant content is input-space',
    'C05': 'pure function of a byte string (compression losslessness / well-formedness)',
    'C06': 'pure function of a byte string (echo writer reproduces the source)',
    'C08': 'pure function of a token list (parser acceptance)',
    'C09': 'pure function of (program, indent width); once it raises, the file-level guarantee is C11',
    'C10': 'pure function; formatting the output again is function iteration, not a history over shared state',
    'C15': 'a property of a 256-entry constant table',
    'C16': 'pure codec correctness against a format specification (the reference codecs here are validated against PICO-8-written carts only as a self-test of the oracle)',
    'C19': 'pure function of the token list (header comments kept by luamin)',
}


def main():
    built = sys.argv[1:] or sorted(CHECKS)
    checks = []
    for pid in sorted(CHECKS):
        if pid not in built:
            continue
        c = CHECKS[pid]
        checks.append({
            'property_id': pid,
            'quick_cmd': './check %s --tier quick' % pid,
            'thorough_cmd': './check %s --tier thorough' % pid,
            'evidence_file': '/verif/evidence/%s.json' % pid,
            'replay_cmd_template': './check %s --replay {path}' % pid,
            'engine': c['engine'],
            'level_claimed': {'category': c['category'], 'text': c['text'],
                              'design_ref': c['design_ref']},
            'level_note': c['note'],
            'technique': c['technique'],
        })
    na = [{'property_id': k, 'reason': v} for k, v in sorted(NA.items())]
    for pid in sorted(CHECKS):
        if pid not in built:
            na.append({'property_id': pid, 'reason':
                       'claimed in DESIGN.md (engine %s) but the check is '
                       'still under construction in this session; not yet '
                       'registered' % CHECKS[pid]['engine']})
    engines = {}
    for pid, c in CHECKS.items():
        if pid in built:
            engines.setdefault(c['engine'], []).append(pid)
    for c in checks:
        c['level_claimed']['text'] += (
            ' Every run executes in a forked child of a process that has '
            'imported but never executed picotool, in its own directory tree '
            '(store, HOME, TMPDIR); part of the runs is repeated under python '
            '-O, in the C locale and with default-encoding warnings as errors.')
    doc = {
        'version': 1,
        'setup_cmd': './check selftest-setup',
        'hooks': {
            'guard': 'PICOTOOL_VERIF',
            'enable': 'no source hooks are needed: the simulator owns the '
                      'existing seams (the encoder\'s outstr argument, Python '
                      'audit events, sys.settrace, env/cwd, public constructor '
                      'arguments); PICOTOOL_VERIF is reserved and unused',
            'baseline_off_cmd': 'cd /repo && /venv/bin/python -m pytest -ra -q '
                                '-p no:cacheprovider --timeout=900 '
                                '--continue-on-collection-errors',
            'source_commits': [],
            'add_only': True,
        },
        'engines': [{'name': n, 'path': '/verif/picosim/engines/%s.py' % n,
                     'serves_properties': sorted(p),
                     'kind_free_text': 'seeded deterministic simulation engine '
                     '(generator -> JSON scenario -> executor on the real '
                     'picotool -> oracle), with delta-debugging minimiser and '
                     'scenario replay'} for n, p in sorted(engines.items())],
        'checks': checks,
        'not_applicable': na,
        'notes': 'All checks run /repo\'s current working tree in-process '
                 '(PICOSIM_REPO overrides the path for mutant runs). '
                 'VERIF_SEED selects the run; every scenario derives from it. '
                 'known_findings.json lists recorded (none) and repaired (13) '
                 'defects; '
                 'regressions/ holds minimised scenarios of repaired defects, '
                 'replayed on every run. Self-tests: ./check '
                 'selftest-determinism, ./check selftest-mutants (own mutants '
                 'and the changes seeded by independent sub-agents), ./check '
                 'selftest-refactors (24 behaviour-preserving '
                 're-implementations must stay quiet).',
    }
    with open(os.path.join(HERE, 'MANIFEST.json'), 'w') as fh:
        json.dump(doc, fh, indent=1)
        fh.write('\n')


if __name__ == '__main__':
    main()
